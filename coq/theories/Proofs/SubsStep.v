(* C12 - lemmas about one step and about whole histories of the subscription machine. *)
From Coq Require Import List NArith ZArith Arith Bool Lia.
From AHK Require Import Model.Subs Proofs.Subs.
Import ListNotations.

Definition Inv (s : st) : Prop := NoDup (subs s) /\ NoDup (lst s).

Lemma inv_init : Inv init.
Proof. split; constructor. Qed.

(* small rewriting facts about the observation functions *)
Lemma put_ids_session : forall ev t, put_ids ev (OSession :: t) = put_ids ev t.
Proof. reflexivity. Qed.
Lemma calls_of_session : forall l t, calls_of l (OSession :: t) = calls_of l t.
Proof. reflexivity. Qed.
Lemma strip_session : forall t, strip (OSession :: t) = OSession :: strip t.
Proof. reflexivity. Qed.
Lemma calls_of_lost : forall l b, calls_of l (lost_out b) = [].
Proof. intros l []; reflexivity. Qed.
Lemma calls_of_ret : forall l r, calls_of l [ORet r] = [].
Proof. reflexivity. Qed.
Lemma put_ids_lost : forall ev b, put_ids ev (lost_out b) = [].
Proof. intros ev []; reflexivity. Qed.
Lemma cutoff_lost : forall b, existsb cutoff (lost_out b) = false.
Proof. intros []; reflexivity. Qed.
Lemma cutoff_session : forall t, existsb cutoff (OSession :: t) = existsb cutoff t.
Proof. reflexivity. Qed.
Lemma strip_lost : forall b, strip (lost_out b) = lost_out b.
Proof. intros []; reflexivity. Qed.

Lemma update_shape : forall ev rs ids, Forall (is_put ev) (fst (update ev rs ids)).
Proof. intros. unfold update. apply send_shape. Qed.

(* ------------------------------------------------------------ the listener registry *)
Lemma add_l_NoDup : forall l ls, NoDup ls -> NoDup (add_l l ls).
Proof.
  intros l ls ND. unfold add_l. destruct (memN l ls) eqn:E; [assumption|].
  apply NoDup_snoc; [assumption|]. apply memN_false. exact E.
Qed.

Lemma del_l_NoDup : forall l ls, NoDup ls -> NoDup (del_l l ls).
Proof. intros l ls ND. unfold del_l. apply NoDup_filter. exact ND. Qed.

Lemma apply_acts_NoDup : forall a reg, NoDup reg -> NoDup (apply_acts a reg).
Proof.
  unfold apply_acts. induction a as [|[b l] t IH]; intros reg ND; cbn [fold_left fst snd]; [assumption|].
  apply IH. destruct b; [apply add_l_NoDup|apply del_l_NoDup]; assumption.
Qed.

Lemma registry_after_NoDup : forall acts snap e reg, NoDup reg -> NoDup (registry_after acts snap e reg).
Proof.
  intros acts. unfold registry_after. induction snap as [|l t IH]; intros e reg ND; cbn [fold_left]; [assumption|].
  apply IH. apply apply_acts_NoDup. exact ND.
Qed.

Lemma registry_after_quiet : forall acts snap e reg, quiet acts -> registry_after acts snap e reg = reg.
Proof.
  intros acts snap e reg Q. unfold registry_after. revert reg.
  induction snap as [|l t IH]; intros reg; cbn [fold_left]; [reflexivity|].
  rewrite Q. cbn. apply IH.
Qed.

Section Step.
  Variable raises : lid -> fevent -> bool.
  Variable acts : lid -> fevent -> list (bool * lid).

  (* ------------------------------------------------------------ invariant *)
  Lemma inv_step : forall s e, Inv s -> Inv (fst (step raises acts s e)).
  Proof.
    intros s e [H1 H2]. unfold Inv. destruct e as [cs rs|cs rs|l|l|rs| |b]; cbn [step].
    - destruct (negb (sup s)); [cbn; split; [apply union_NoDup|]; assumption|].
      destruct (negb (conn s)); [cbn; split; [apply union_NoDup|]; assumption|].
      destruct (update true rs cs) as [o [stt|lost]]; cbn; (split; [apply union_NoDup|]; assumption).
    - destruct (negb (conn s)); [cbn; split; [apply diff_NoDup|]; assumption|].
      destruct (update false rs cs) as [o [stt|lost]]; cbn; split; try assumption. apply diff_NoDup; assumption.
    - cbn. split; [assumption|]. apply add_l_NoDup. assumption.
    - cbn. split; [assumption|]. apply del_l_NoDup. assumption.
    - destruct (conn s); [cbn; split; assumption|].
      assert (NR : NoDup (reg_after acts s [])) by (apply registry_after_NoDup; assumption).
      destruct (subs s) as [|c t] eqn:ES; [cbn; split; [constructor|assumption]|].
      destruct (negb (sup s)); [cbn; split; assumption|].
      destruct (update true rs (c :: t)) as [o [stt|lost]]; cbn; split; assumption.
    - destruct (conn s); cbn; split; assumption.
    - destruct (conn s); [|cbn; split; assumption]. destruct b; cbn; split; try assumption.
      apply registry_after_NoDup; assumption.
  Qed.

  Lemma inv_run : forall h s, Inv s -> Inv (fst (run_from raises acts s h)).
  Proof.
    induction h as [|e t IH]; intros s HI; cbn [run_from]; [exact HI|].
    pose proof (inv_step s e HI) as P. destruct (step raises acts s e) as [s1 o1]. cbn [fst] in P.
    specialize (IH s1 P). destruct (run_from raises acts s1 t) as [s2 o2]. exact IH.
  Qed.

  Lemma inv_reachable : forall s, reachable raises acts s -> Inv s.
  Proof. intros s H. induction H; [apply inv_init|apply inv_step; assumption]. Qed.

  Lemma reachable_run_from : forall h s, reachable raises acts s -> reachable raises acts (fst (run_from raises acts s h)).
  Proof.
    induction h as [|e t IH]; intros s HR; cbn [run_from]; [exact HR|].
    pose proof (reach_step raises acts s e HR) as P. destruct (step raises acts s e) as [s1 o1]. cbn [fst] in P.
    specialize (IH s1 P). destruct (run_from raises acts s1 t) as [s2 o2]. exact IH.
  Qed.

  (* ------------------------------------------------------------ re-subscription *)
  Lemma resubscribe_all_l : forall s rs s' o,
      Inv s -> conn s = false -> sup s = true ->
      step raises acts s (ConnUp rs) = (s', o) -> sup s' = true ->
      (forall c, In c (put_ids true o) <-> In c (subs s))
      /\ put_ids false o = []
      /\ (forall l, In l (lst s) -> calls_of l o = [[]])
      /\ (forall l, ~ In l (lst s) -> calls_of l o = [])
      /\ conn s' = true /\ subs s' = subs s /\ lst s' = reg_after acts s [].
  Proof.
    intros s rs s' o [ND1 ND2] HC HS Hstep Hs'. cbn [step] in Hstep. rewrite HC in Hstep.
    destruct (subs s) as [|c t] eqn:ES.
    - inversion Hstep; subst; clear Hstep. cbn [subs lst conn].
      rewrite !put_ids_session, !notify_no_put. repeat split; try tauto.
      + intros l HI. rewrite calls_of_session. apply calls_notify_in; assumption.
      + intros l HI. rewrite calls_of_session. apply calls_notify_notin; assumption.
    - rewrite HS in Hstep. cbn [negb] in Hstep.
      destruct (update true rs (c :: t)) as [o1 [stt|lost]] eqn:EU.
      + inversion Hstep; subst; clear Hstep. cbn [subs lst conn].
        pose proof (update_shape true rs (c :: t)) as SH. rewrite EU in SH. cbn [fst] in SH.
        unfold update in EU. destruct (send_done _ _ _ _ _ _ EU) as [P1 _].
        change (OSession :: notify raises (lst s) [] ++ o1) with ((OSession :: notify raises (lst s) []) ++ o1).
        rewrite !put_ids_app, !put_ids_session, !notify_no_put, !app_nil_l.
        split; [|split; [|split; [|split]]].
        * intros c0. rewrite P1. apply groups_concat_In.
        * apply (puts_other true). exact SH.
        * intros l HI. rewrite calls_of_app, calls_of_session, (puts_calls true o1 l SH), app_nil_r.
          apply calls_notify_in; assumption.
        * intros l HI. rewrite calls_of_app, calls_of_session, (puts_calls true o1 l SH), app_nil_r.
          apply calls_notify_notin; assumption.
        * repeat split; reflexivity.
      + inversion Hstep; subst. cbn in Hs'. discriminate.
  Qed.

  (* in fall-back mode a new session still tells every listener, and sends no request *)
  Lemma connup_fallback_l : forall s rs s' o,
      Inv s -> conn s = false -> sup s = false ->
      step raises acts s (ConnUp rs) = (s', o) ->
      put_ids true o = [] /\ put_ids false o = []
      /\ (forall l, In l (lst s) -> calls_of l o = [[]])
      /\ conn s' = true /\ subs s' = subs s /\ sup s' = false.
  Proof.
    intros s rs s' o [ND1 ND2] HC HS Hstep. cbn [step] in Hstep. rewrite HC in Hstep.
    destruct (subs s) as [|c t] eqn:ES.
    - inversion Hstep; subst; clear Hstep. cbn [subs sup conn].
      rewrite !put_ids_session, !notify_no_put. repeat split; try assumption.
      intros l HI. rewrite calls_of_session. apply calls_notify_in; assumption.
    - rewrite HS in Hstep. cbn [negb] in Hstep. inversion Hstep; subst; clear Hstep. cbn [subs sup conn].
      rewrite !put_ids_session, !notify_no_put. repeat split; try assumption.
      intros l HI. rewrite calls_of_session. apply calls_notify_in; assumption.
  Qed.

  (* whether the re-subscribe of a new session is cut off is decided by the replies alone *)
  Lemma connup_cutoff_l : forall s rs,
      conn s = false -> sup s = true ->
      (sup (fst (step raises acts s (ConnUp rs))) = false
       <-> exists a, In a (map fst (subs s)) /\ (reply_for a rs = RDisc \/ reply_for a rs = RHttp4xx)).
  Proof.
    intros s rs HC HS. cbn [step]. rewrite HC.
    destruct (subs s) as [|c t] eqn:ES.
    - cbn. rewrite HS. split; [discriminate|]. intros [a [[] _]].
    - rewrite HS. cbn [negb].
      destruct (update true rs (c :: t)) as [o1 [stt|lost]] eqn:EU; unfold update in EU; cbn [fst sup].
      + destruct (send_done _ _ _ _ _ _ EU) as [_ [_ [_ P4]]]. split; [discriminate|].
        intros [a [HA HR]]. rewrite groups_fst in P4. apply aids_In in HA.
        destruct (P4 a HA) as [N1 N2]. destruct HR; contradiction.
      + destruct (send_fail _ _ _ _ _ _ EU) as [_ [_ [_ [a [HA HR]]]]]. split; [|reflexivity].
        intros _. exists a. split; [|exact HR]. rewrite groups_fst in HA. apply aids_In. exact HA.
  Qed.

  (* ------------------------------------------------------------ supports_subscribe *)
  Lemma sup_step : forall s e,
      sup (fst (step raises acts s e)) = sup s && negb (existsb cutoff (snd (step raises acts s e))).
  Proof.
    intros s e. destruct e as [cs rs|cs rs|l|l|rs| |b]; cbn [step].
    - destruct (sup s) eqn:HS; cbn [negb]; [|reflexivity].
      destruct (negb (conn s)); [reflexivity|].
      destruct (update true rs cs) as [o [stt|lost]] eqn:EU; unfold update in EU; cbn [fst snd sup].
      + destruct (send_done _ _ _ _ _ _ EU) as [_ [P2 _]]. rewrite existsb_app, P2. reflexivity.
      + rewrite existsb_app, (send_fail_cutoff _ _ _ _ _ EU). reflexivity.
    - destruct (negb (conn s)); [cbn; rewrite andb_true_r; reflexivity|].
      pose proof (update_shape false rs cs) as SH.
      destruct (update false rs cs) as [o [stt|lost]]; cbn [fst snd sup] in *.
      + rewrite existsb_app, (puts_false_cutoff o SH). cbn. rewrite andb_true_r. reflexivity.
      + rewrite !existsb_app, (puts_false_cutoff o SH), cutoff_lost. cbn. rewrite andb_true_r. reflexivity.
    - cbn. rewrite andb_true_r. reflexivity.
    - cbn. rewrite andb_true_r. reflexivity.
    - destruct (conn s); [cbn; rewrite andb_true_r; reflexivity|].
      destruct (subs s) as [|c t].
      + cbn [fst snd sup]. rewrite cutoff_session, notify_no_cutoff. cbn. rewrite andb_true_r. reflexivity.
      + destruct (sup s) eqn:HS; cbn [negb].
        * destruct (update true rs (c :: t)) as [o [stt|lost]] eqn:EU; unfold update in EU; cbn [fst snd sup].
          -- destruct (send_done _ _ _ _ _ _ EU) as [_ [P2 _]].
             rewrite existsb_app, cutoff_session, notify_no_cutoff, P2. reflexivity.
          -- rewrite !existsb_app, cutoff_session, notify_no_cutoff, (send_fail_cutoff _ _ _ _ _ EU). reflexivity.
        * reflexivity.
    - destruct (conn s); cbn; rewrite andb_true_r; reflexivity.
    - destruct (conn s); [|cbn; rewrite andb_true_r; reflexivity].
      destruct b; cbn [fst snd]; try (cbn; rewrite andb_true_r; reflexivity).
      rewrite notify_no_cutoff. cbn. rewrite andb_true_r. reflexivity.
  Qed.

  Lemma sup_run_from : forall h s,
      sup (fst (run_from raises acts s h)) = sup s && negb (existsb cutoff (snd (run_from raises acts s h))).
  Proof.
    induction h as [|e t IH]; intros s; cbn [run_from].
    - cbn. rewrite andb_true_r. reflexivity.
    - pose proof (sup_step s e) as P. destruct (step raises acts s e) as [s1 o1]. cbn [fst snd] in P.
      specialize (IH s1). destruct (run_from raises acts s1 t) as [s2 o2]. cbn [fst snd] in *.
      rewrite IH, P, existsb_app, negb_orb, andb_assoc. reflexivity.
  Qed.

  Lemma fallback_iff : forall h,
      sup (fst (run raises acts h)) = false <->
      exists ids r, In (OPut true ids r) (snd (run raises acts h)) /\ (r = PutDisc \/ r = Put4xx).
  Proof.
    intros h. unfold run. rewrite sup_run_from. cbn [sup init andb]. rewrite negb_false_iff, existsb_exists.
    split.
    - intros [x [HI HC]]. destruct x as [|ev ids r| | | |]; try discriminate.
      destruct ev; [|discriminate]. destruct r; try discriminate; eauto.
    - intros [ids [r [HI [->| ->]]]]; eexists; (split; [exact HI|reflexivity]).
  Qed.

  (* ------------------------------------------------------------ the subscription set *)
  Lemma subs_subscribe : forall s cs rs c,
      In c (subs (fst (step raises acts s (Subscribe cs rs)))) <-> In c (subs s) \/ In c cs.
  Proof.
    intros s cs rs c. cbn [step].
    destruct (negb (sup s)); [cbn; apply union_In|].
    destruct (negb (conn s)); [cbn; apply union_In|].
    destruct (update true rs cs) as [o [stt|lost]]; cbn; apply union_In.
  Qed.

  Lemma subs_unsubscribe : forall s cs rs c,
      (In c (subs (fst (step raises acts s (Unsubscribe cs rs)))) -> In c (subs s))
      /\ (In c (subs s) -> ~ In c cs -> In c (subs (fst (step raises acts s (Unsubscribe cs rs))))).
  Proof.
    intros s cs rs c. cbn [step].
    destruct (negb (conn s)); [cbn; rewrite diff_In; tauto|].
    destruct (update false rs cs) as [o [stt|lost]]; cbn; [|tauto].
    rewrite diff_In, diff_In. tauto.
  Qed.

  Lemma subs_other : forall s e,
      match e with Subscribe _ _ | Unsubscribe _ _ => True
              | _ => subs (fst (step raises acts s e)) = subs s end.
  Proof.
    intros s e. destruct e as [cs rs|cs rs|l|l|rs| |b]; cbn [step]; try exact I; try reflexivity.
    - destruct (conn s); [reflexivity|]. destruct (subs s) as [|c t] eqn:ES; [cbn; auto|].
      destruct (negb (sup s)); [cbn; auto|].
      destruct (update true rs (c :: t)) as [o [stt|lost]]; cbn; auto.
    - destruct (conn s); reflexivity.
    - destruct (conn s); [|reflexivity]. destruct b; reflexivity.
  Qed.

  (* ------------------------------------------------------------ events and listener logs *)
  Lemma step_calls : forall s e l, NoDup (lst s) ->
      calls_of l (snd (step raises acts s e)) = if memN l (lst s) then notif s e else [].
  Proof.
    intros s e l ND.
    assert (NIL : forall b : bool, (if b then @nil fevent else []) = []) by (intros []; reflexivity).
    destruct e as [cs rs|cs rs|l0|l0|rs| |b]; cbn [step notif]; rewrite ?NIL.
    - destruct (negb (sup s)); [reflexivity|]. destruct (negb (conn s)); [reflexivity|].
      pose proof (update_shape true rs cs) as SH.
      destruct (update true rs cs) as [o [stt|lost]]; cbn [fst snd] in *;
        rewrite !calls_of_app, ?calls_of_lost, (puts_calls true o l SH); reflexivity.
    - destruct (negb (conn s)); [reflexivity|].
      pose proof (update_shape false rs cs) as SH.
      destruct (update false rs cs) as [o [stt|lost]]; cbn [fst snd] in *;
        rewrite !calls_of_app, ?calls_of_lost, (puts_calls false o l SH); reflexivity.
    - reflexivity.
    - reflexivity.
    - destruct (conn s); [cbn; rewrite NIL; reflexivity|].
      destruct (subs s) as [|c t].
      + cbn [snd]. rewrite calls_of_session. apply calls_notify. exact ND.
      + destruct (negb (sup s)); [cbn [snd]; rewrite calls_of_session; apply calls_notify; exact ND|].
        pose proof (update_shape true rs (c :: t)) as SH.
        destruct (update true rs (c :: t)) as [o [stt|lost]]; cbn [fst snd] in *.
        * change (OSession :: notify raises (lst s) [] ++ o) with ((OSession :: notify raises (lst s) []) ++ o).
          rewrite calls_of_app, calls_of_session, (puts_calls true o l SH), app_nil_r. apply calls_notify. exact ND.
        * change (OSession :: notify raises (lst s) [] ++ o ++ lost_out lost)
            with ((OSession :: notify raises (lst s) []) ++ o ++ lost_out lost).
          rewrite !calls_of_app, calls_of_session, (puts_calls true o l SH), calls_of_lost, !app_nil_r.
          apply calls_notify. exact ND.
    - destruct (conn s); reflexivity.
    - destruct (conn s); [|cbn; rewrite NIL; reflexivity].
      destruct b; cbn [snd deliver]; rewrite ?NIL; try reflexivity.
      apply calls_notify. exact ND.
  Qed.

  Lemma log_char : forall h s l, Inv s ->
      calls_of l (snd (run_from raises acts s h)) = expected_log raises acts l s h.
  Proof.
    induction h as [|e t IH]; intros s l HI; cbn [run_from expected_log]; [reflexivity|].
    pose proof (step_calls s e l (proj2 HI)) as P. pose proof (inv_step s e HI) as Q.
    destruct (step raises acts s e) as [s1 o1]. cbn [fst snd] in *.
    specialize (IH s1 l Q). destruct (run_from raises acts s1 t) as [s2 o2]. cbn [snd] in *.
    rewrite calls_of_app, P, IH. reflexivity.
  Qed.

  Lemma event_keeps_session : forall s b,
      subs (fst (step raises acts s (EventMsg b))) = subs s
      /\ sup (fst (step raises acts s (EventMsg b))) = sup s
      /\ conn (fst (step raises acts s (EventMsg b))) = conn s.
  Proof.
    intros s b. cbn [step]. destruct (conn s) eqn:HC; [|cbn; rewrite HC; repeat split].
    destruct b; cbn; rewrite ?HC; repeat split.
  Qed.

  Lemma event_keeps_state : forall s b, quiet acts -> fst (step raises acts s (EventMsg b)) = s.
  Proof.
    intros s b Q. cbn [step]. destruct (conn s) eqn:HC; [|reflexivity].
    destruct b; try reflexivity. cbn [fst]. unfold reg_after. rewrite registry_after_quiet by exact Q.
    destruct s; cbn in *. subst. reflexivity.
  Qed.

  Lemma event_stream_l : forall bs s l, quiet acts -> conn s = true -> NoDup (lst s) ->
      fst (run_from raises acts s (map EventMsg bs)) = s
      /\ calls_of l (snd (run_from raises acts s (map EventMsg bs)))
         = if memN l (lst s) then flat_map deliver bs else [].
  Proof.
    induction bs as [|b t IH]; intros s l Q HC ND; cbn [map run_from flat_map].
    - split; [reflexivity|]. destruct (memN l (lst s)); reflexivity.
    - pose proof (step_calls s (EventMsg b) l ND) as P. pose proof (event_keeps_state s b Q) as R.
      destruct (step raises acts s (EventMsg b)) as [s1 o1]. cbn [fst snd] in *. subst s1.
      destruct (IH s l Q HC ND) as [R1 R2]. destruct (run_from raises acts s (map EventMsg t)) as [s2 o2]. cbn [fst snd] in *.
      split; [exact R1|]. rewrite calls_of_app, P, R2. cbn [notif]. rewrite HC.
      destruct (memN l (lst s)); reflexivity.
  Qed.

  Lemma ignored_bodies : forall s,
      step raises acts s (EventMsg BEmpty) = (s, []) /\ step raises acts s (EventMsg BNonJson) = (s, []).
  Proof. intros s. cbn [step]. destruct (conn s); split; reflexivity. Qed.

  (* ------------------------------------------------------------ what can end a session *)
  Lemma conn_step : forall s e,
      conn s = true -> conn (fst (step raises acts s e)) = false ->
      e = ConnDown \/ exists ev ids, In (OPut ev ids PutDisc) (snd (step raises acts s e)).
  Proof.
    intros s e HC. destruct e as [cs rs|cs rs|l|l|rs| |b]; cbn [step]; rewrite ?HC; cbn [negb].
    - destruct (negb (sup s)); [cbn; congruence|].
      destruct (update true rs cs) as [o [stt|lost]] eqn:EU; unfold update in EU; cbn [fst snd conn]; [discriminate|].
      intros HL. right. destruct (send_fail _ _ _ _ _ _ EU) as [[ids [r [P1 P2]]] _].
      destruct lost; [|discriminate]. destruct P2 as [[-> _]|[_ X]]; [|discriminate].
      exists true, ids. apply in_or_app. left. exact P1.
    - destruct (update false rs cs) as [o [stt|lost]] eqn:EU; unfold update in EU; cbn [fst snd conn]; [discriminate|].
      intros HL. right. destruct (send_fail _ _ _ _ _ _ EU) as [[ids [r [P1 P2]]] _].
      destruct lost; [|discriminate]. destruct P2 as [[-> _]|[_ X]]; [|discriminate].
      exists false, ids. apply in_or_app. left. exact P1.
    - cbn. congruence.
    - cbn. congruence.
    - cbn. congruence.
    - intros _. left. reflexivity.
    - destruct b; cbn; congruence.
  Qed.
End Step.

(* ------------------------------------------------------------ listener isolation *)
Lemma step_indep : forall r1 r2 acts s e,
    fst (step r1 acts s e) = fst (step r2 acts s e)
    /\ strip (snd (step r1 acts s e)) = strip (snd (step r2 acts s e)).
Proof.
  intros r1 r2 acts s e. destruct e as [cs rs|cs rs|l|l|rs| |b]; cbn [step]; try (split; reflexivity).
  - destruct (conn s); [split; reflexivity|].
    destruct (subs s) as [|c t].
    + cbn [fst snd]. rewrite !strip_session, !strip_notify. split; reflexivity.
    + destruct (negb (sup s)).
      * cbn [fst snd]. rewrite !strip_session, !strip_notify. split; reflexivity.
      * destruct (update true rs (c :: t)) as [o [stt|lost]]; cbn [fst snd]; (split; [reflexivity|]).
        -- change (OSession :: notify r1 (lst s) [] ++ o) with ((OSession :: notify r1 (lst s) []) ++ o).
           change (OSession :: notify r2 (lst s) [] ++ o) with ((OSession :: notify r2 (lst s) []) ++ o).
           rewrite !strip_app, !strip_session, !strip_notify. reflexivity.
        -- change (OSession :: notify r1 (lst s) [] ++ o ++ lost_out lost)
             with ((OSession :: notify r1 (lst s) []) ++ o ++ lost_out lost).
           change (OSession :: notify r2 (lst s) [] ++ o ++ lost_out lost)
             with ((OSession :: notify r2 (lst s) []) ++ o ++ lost_out lost).
           rewrite !strip_app, !strip_session, !strip_notify. reflexivity.
  - destruct (conn s); [|split; reflexivity].
    destruct b; cbn [fst snd]; try (split; reflexivity).
    rewrite !strip_notify. split; reflexivity.
Qed.

Lemma run_indep : forall r1 r2 acts h s,
    fst (run_from r1 acts s h) = fst (run_from r2 acts s h)
    /\ strip (snd (run_from r1 acts s h)) = strip (snd (run_from r2 acts s h)).
Proof.
  intros r1 r2 acts. induction h as [|e t IH]; intros s; cbn [run_from]; [split; reflexivity|].
  destruct (step_indep r1 r2 acts s e) as [P1 P2].
  destruct (step r1 acts s e) as [s1 o1]. destruct (step r2 acts s e) as [s1' o1']. cbn [fst snd] in *. subst s1'.
  destruct (IH s1) as [Q1 Q2].
  destruct (run_from r1 acts s1 t) as [s2 o2]. destruct (run_from r2 acts s1 t) as [s2' o2']. cbn [fst snd] in *.
  split; [exact Q1|]. rewrite !strip_app, P2, Q2. reflexivity.
Qed.

Lemma calls_of_strip : forall l o, calls_of l (strip o) = calls_of l o.
Proof.
  intros l o. unfold strip, calls_of. induction o as [|x t IH]; [reflexivity|].
  destruct x; cbn [filter is_raised negb flat_map]; rewrite ?IH; reflexivity.
Qed.

Lemma put_ids_strip : forall ev o, put_ids ev (strip o) = put_ids ev o.
Proof.
  intros ev o. unfold strip, put_ids. induction o as [|x t IH]; [reflexivity|].
  destruct x; cbn [filter is_raised negb flat_map]; rewrite ?IH; reflexivity.
Qed.

Lemma lost_strip : forall o, In OLost (strip o) <-> In OLost o.
Proof.
  intros o. unfold strip. rewrite filter_In. split; [tauto|]. intros H. split; [exact H|reflexivity].
Qed.
