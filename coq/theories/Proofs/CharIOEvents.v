(* C13 extension - exactly-once delivery and call order of listener notifications *)
From Coq Require Import List NArith ZArith Arith Bool Lia ZifyN ZifyNat ZifyBool.
From AHK Require Import Lib.Res Model.CharIO Model.CharIOEvents Proofs.CharIO Proofs.CharIOThm.
Import ListNotations.

(* ------------------------------------------------------------------ key counts in dicts *)
Lemma kcount_dremove : forall A k k' (m : dict A),
    kcount k (dremove k' m) = if cid_eqb k k' then 0 else kcount k m.
Proof.
  intros A k k' m. unfold kcount, dremove. induction m as [|[k0 v] t IH]; cbn [filter fst].
  - destruct (cid_eqb k k'); reflexivity.
  - destruct (cid_eqb k' k0) eqn:E1; cbn [negb].
    + rewrite IH. destruct (cid_eqb k k') eqn:E2; [reflexivity|].
      apply cid_eqb_eq in E1. subst k0. rewrite E2. reflexivity.
    + cbn [filter fst]. destruct (cid_eqb k k0) eqn:E3; cbn [length]; rewrite IH.
      * destruct (cid_eqb k k') eqn:E2; [|reflexivity].
        apply cid_eqb_eq in E2. subst k'. congruence.
      * reflexivity.
Qed.
Lemma kcount_dset : forall A k k' (v : A) m,
    kcount k (dset k' v m) = if cid_eqb k k' then 1 else kcount k m.
Proof.
  intros A k k' v m. pose proof (kcount_dremove A k k' m) as H. unfold kcount in *. unfold dset.
  cbn [filter fst]. destruct (cid_eqb k k') eqn:E; cbn [length]; rewrite H; reflexivity.
Qed.

(* every key occurs at most once, and exactly when lookup finds it *)
Definition tight {A} (m : dict A) : Prop :=
  forall k, kcount k m = match lookup k m with Some _ => 1 | None => 0 end.
Lemma tight_nil : forall A, tight (@nil (cid * A)).
Proof. intros A k. reflexivity. Qed.
Lemma tight_dset : forall A k' (v : A) m, tight m -> tight (dset k' v m).
Proof.
  intros A k' v m H k. rewrite kcount_dset, lookup_dset. destruct (cid_eqb k k'); [reflexivity|apply H].
Qed.
Lemma tight_dremove : forall A k' (m : dict A), tight m -> tight (dremove k' m).
Proof.
  intros A k' m H k. rewrite kcount_dremove, lookup_dremove. destruct (cid_eqb k k'); [reflexivity|apply H].
Qed.
Lemma tight_fold : forall A B (f : dict A -> B -> dict A),
    (forall m b, tight m -> tight (f m b)) -> forall l m, tight m -> tight (fold_left f l m).
Proof. intros A B f Hf. induction l as [|b t IH]; intros m H; cbn [fold_left]; auto. Qed.

Lemma listener_init_tight : forall rd reqs, tight (listener_init rd reqs).
Proof.
  intros. unfold listener_init. apply tight_fold; [|apply tight_nil].
  intros m q H. destruct (rd (fst q)); [apply tight_dset|]; exact H.
Qed.
Lemma ip_loop_tight : forall rej es rs lu rs' lu',
    tight rs -> tight lu -> ip_put_loop rej es rs lu = Ok (rs', lu') -> tight rs' /\ tight lu'.
Proof.
  intros rej. induction es as [|e t IH]; intros rs lu rs' lu' Hr Hl H; cbn [ip_put_loop] in H.
  - inversion H. subst. split; assumption.
  - destruct e as [|a i [s|] v]; [exact (IH _ _ _ _ Hr Hl H)| |discriminate].
    assert (Hl' : tight (if rej s then dremove (a, i) lu else lu)).
    { destruct (rej s); [apply tight_dremove|]; exact Hl. }
    exact (IH _ _ _ _ (tight_dset _ _ _ _ Hr) Hl' H).
Qed.
Lemma ip_put_tight : forall rej rd reqs r rs lu,
    ip_put_gen rej rd reqs r = Ok (rs, lu) -> tight rs /\ tight lu.
Proof.
  intros rej rd reqs r rs lu H. destruct r as [| |es]; cbn [ip_put_gen] in H.
  - inversion H. split; [apply tight_nil|apply listener_init_tight].
  - discriminate.
  - eapply ip_loop_tight; [apply tight_nil|apply listener_init_tight|exact H].
Qed.

(* ------------------------------------------------------------------ call logs *)
Lemma deliveries_events : forall k lu, deliveries k (listener_events lu) = kcount k lu.
Proof.
  intros k lu. destruct lu as [|p t]; [reflexivity|].
  unfold listener_events. cbn [deliveries]. lia.
Qed.
Lemma events_shape : forall lu, length (listener_events lu) <= 1 /\ ~ In [] (listener_events lu).
Proof.
  intros lu. destruct lu as [|p t]; cbn [listener_events length In]; split; try lia.
  all: intros H; try exact H; destruct H as [H|H]; [discriminate|exact H].
Qed.
Lemma last_req_requested : forall reqs k,
    (match last_req reqs k with Some _ => true | None => false end) = requested reqs k.
Proof.
  intros reqs k. unfold requested. induction reqs as [|q t IH]; cbn [last_req existsb]; [reflexivity|].
  rewrite <- IH. destruct (last_req t k); [rewrite orb_true_r; reflexivity|].
  rewrite orb_false_r. destruct (cid_eqb k (fst q)); reflexivity.
Qed.
Lemma count_of_lookup : forall (c : bool) (o : option Z),
    (match (if c then o else None) with Some _ => 1 | None => 0 end) =
    (if c && (match o with Some _ => true | None => false end) then 1 else 0).
Proof. intros [|] [z|]; reflexivity. Qed.

Lemma ip_exactly_once_thm : forall rd reqs r rs lu,
    ip_put rd reqs r = Ok (rs, lu) ->
    length (listener_events lu) <= 1 /\ ~ In [] (listener_events lu) /\
    forall k, deliveries k (listener_events lu) =
              if rd k && negb (rejectsb (reply_entries r) k) && requested reqs k then 1 else 0.
Proof.
  intros rd reqs r rs lu H. destruct (events_shape lu) as [S1 S2]. split; [exact S1|]. split; [exact S2|].
  intros k. rewrite deliveries_events.
  destruct (ip_put_tight _ _ _ _ _ _ H) as [_ T]. rewrite T.
  rewrite (ip_listeners_lem _ _ _ _ _ H k), count_of_lookup, last_req_requested. reflexivity.
Qed.

Lemma ip_result_keys_unique_thm : forall rd reqs r rs lu,
    ip_put rd reqs r = Ok (rs, lu) -> forall k, kcount k rs <= 1 /\ kcount k lu <= 1.
Proof.
  intros rd reqs r rs lu H k. destruct (ip_put_tight _ _ _ _ _ _ H) as [T1 T2].
  rewrite T1, T2. destruct (lookup k rs), (lookup k lu); lia.
Qed.

Lemma coap_exactly_once_thm : forall rd reqs rs out lu,
    coap_put rd reqs rs = Ok (out, lu) ->
    length (listener_events lu) <= 1 /\ ~ In [] (listener_events lu) /\
    forall k, deliveries k (listener_events lu) =
              if rd k && negb (any_paired_status (map fst reqs) rs k) && requested reqs k then 1 else 0.
Proof.
  intros rd reqs rs out lu H. destruct (events_shape lu) as [S1 S2]. split; [exact S1|]. split; [exact S2|].
  intros k. rewrite deliveries_events.
  assert (T : tight lu).
  { unfold coap_put in H. destruct (coap_write_loop (map fst reqs) rs []) as [o| | |]; try discriminate.
    inversion H. subst. apply (tight_fold Z (cid * Z)); [|apply tight_nil].
    intros m q Hm. destruct (negb (dmem (fst q) out) && rd (fst q)); [apply tight_dset|]; exact Hm. }
  rewrite T.
  destruct (coap_put_lem rd reqs rs) as [L1 L2].
  destruct (le_lt_dec (length rs) (length reqs)) as [Hl|Hl].
  - destruct (L1 Hl) as [out' [lu' [E [_ Hu]]]]. rewrite E in H. inversion H. subst out' lu'.
    rewrite Hu, count_of_lookup, last_req_requested. reflexivity.
  - rewrite (L2 Hl) in H. discriminate.
Qed.

(* ------------------------------------------------------------------ BLE: per item, in request order *)
Lemma kcount_map_filter : forall (k : cid) (p : bitem -> bool) (l : list bitem),
    kcount k (map (fun it => (b_key it, b_val it)) (filter p l)) =
    length (filter (fun it => cid_eqb k (b_key it) && p it) l).
Proof.
  intros k p. unfold kcount. induction l as [|it t IH]; cbn [filter map]; [reflexivity|].
  destruct (p it) eqn:P; cbn [map filter fst].
  - destruct (cid_eqb k (b_key it)); cbn [andb length]; rewrite IH; reflexivity.
  - rewrite andb_false_r. exact IH.
Qed.
Lemma subseq_refl : forall A (l : list A), subseq l l.
Proof. induction l; [apply sub_nil|apply sub_take; assumption]. Qed.
Lemma subseq_app_r : forall A (l1 l2 post : list A), subseq l1 l2 -> subseq l1 (l2 ++ post).
Proof.
  intros A l1 l2 post H. induction H; cbn [app].
  - induction post; [apply sub_nil|apply sub_skip; assumption].
  - apply sub_skip. assumption.
  - apply sub_take. assumption.
Qed.
Lemma subseq_map_filter : forall A B (f : A -> B) (p : A -> bool) l, subseq (map f (filter p l)) (map f l).
Proof.
  intros A B f p. induction l as [|x t IH]; cbn [filter map]; [apply sub_nil|].
  destruct (p x); cbn [map]; [apply sub_take|apply sub_skip]; exact IH.
Qed.

Lemma ble_exactly_once_thm : forall perm rd items,
    (forall k, kcount k (fst (ble_put perm rd items)) =
               length (ble_announced perm rd k (ble_prefix perm items))) /\
    subseq (fst (ble_put perm rd items)) (map (fun it => (b_key it, b_val it)) items) /\
    (forall rs, snd (ble_put perm rd items) = Ok rs ->
       forall k, kcount k (fst (ble_put perm rd items)) = length (ble_announced perm rd k items)).
Proof.
  intros perm rd items. destruct (ble_listeners_thm perm rd items) as [H0 [H1 _]].
  split; [|split].
  - intros k. rewrite H0. unfold ble_notified, ble_announced. apply kcount_map_filter.
  - rewrite H0. unfold ble_notified.
    destruct (ble_prefix_spec perm items) as [post [E _]].
    rewrite E at 2. rewrite map_app. apply subseq_app_r. apply subseq_map_filter.
  - intros rs Hok k. rewrite (H1 rs Hok). unfold ble_notified, ble_announced. apply kcount_map_filter.
Qed.

(* ------------------------------------------------------------------ request-wide write error *)
Lemma ip_nolist_fails_thm : forall rd reqs, ip_put rd reqs WNoList = Crash.
Proof. reflexivity. Qed.
Lemma ip_ok_has_verdicts_thm : forall rd reqs r rs lu,
    ip_put rd reqs r = Ok (rs, lu) -> r = W204 \/ exists es, r = W207 es /\ forallb has_status es = true.
Proof.
  intros rd reqs r rs lu H. destruct r as [| |es]; [left; reflexivity|discriminate|].
  right. exists es. split; [reflexivity|].
  destruct (forallb has_status es) eqn:F; [reflexivity|].
  rewrite (ip_write_crash_thm rd reqs es F) in H. discriminate.
Qed.
