(* C05 - outbound: chunking, concatenation, counters, acceptance by the spec receiver. *)
From Coq Require Import List NArith ZArith Arith Bool Lia ZifyN ZifyNat ZifyBool.
From AHK Require Import Lib.Res Lib.ByteStr Model.Frame Proofs.FrameBase Proofs.FrameFeed.
Import ListNotations.

Section SendProofs.
  Variable F : nat.
  Hypothesis Fpos : 0 < F.

  Lemma send_sym_f_shape fuel : forall ctr payload,
      Forall (frame_shape F) (fst (send_sym_f F fuel ctr payload)).
  Proof.
    induction fuel as [|f IH]; intros ctr payload; cbn [send_sym_f]; [constructor|].
    destruct payload as [|b r]; [constructor|].
    cbn [fst]. constructor; [|apply IH].
    unfold frame_shape; cbn [sf_chunk sf_prefix sf_aad sf_nonce sf_ctr].
    rewrite firstn_length. cbn [length]. repeat split; lia.
  Qed.

  Lemma send_sym_f_concat fuel : forall ctr payload,
      length payload <= fuel ->
      concat (map sf_chunk (fst (send_sym_f F fuel ctr payload))) = payload.
  Proof.
    induction fuel as [|f IH]; intros ctr payload H; cbn [send_sym_f].
    - destruct payload; [reflexivity|cbn in H; lia].
    - destruct payload as [|b r]; [reflexivity|].
      cbn [fst map concat sf_chunk]. rewrite IH.
      + apply firstn_skipn.
      + rewrite skipn_length. cbn [length] in *. lia.
  Qed.

  Lemma send_sym_f_counters fuel : forall ctr payload,
      map sf_ctr (fst (send_sym_f F fuel ctr payload))
      = counters ctr (length (fst (send_sym_f F fuel ctr payload)))
      /\ snd (send_sym_f F fuel ctr payload)
         = (ctr + N.of_nat (length (fst (send_sym_f F fuel ctr payload))))%N.
  Proof.
    induction fuel as [|f IH]; intros ctr payload; cbn [send_sym_f].
    - cbn. split; [reflexivity|lia].
    - destruct payload as [|b r]; [cbn; split; [reflexivity|lia]|].
      destruct (IH (ctr + 1)%N (skipn F (b :: r))) as [IH1 IH2].
      cbn [fst snd map length counters sf_ctr]. rewrite IH1, IH2. split; [reflexivity|lia].
  Qed.

  (* number of frames = ceil(len / F) *)
  Lemma send_sym_f_count fuel : forall ctr payload,
      length payload <= fuel ->
      length (fst (send_sym_f F fuel ctr payload)) = (length payload + (F - 1)) / F.
  Proof.
    induction fuel as [|f IH]; intros ctr payload H; cbn [send_sym_f].
    - destruct payload; [|cbn in H; lia]. cbn. symmetry. apply Nat.div_small. lia.
    - destruct payload as [|b r].
      + cbn. symmetry. apply Nat.div_small. lia.
      + cbn [fst length]. rewrite IH by (rewrite skipn_length; cbn [length] in *; lia).
        rewrite skipn_length. set (L := length (b :: r)).
        assert (HL : 1 <= L) by (unfold L; cbn; lia).
        change (S (length r)) with L.
        destruct (Nat.le_gt_cases F L) as [Hle|Hgt].
        * replace (L + (F - 1)) with ((L - F + (F - 1)) + 1 * F) by lia.
          rewrite Nat.div_add by lia. lia.
        * replace (L - F) with 0 by lia.
          replace (L + (F - 1)) with ((L - 1) + 1 * F) by lia.
          rewrite Nat.div_add by lia.
          rewrite (Nat.div_small (0 + (F - 1)) F) by lia.
          rewrite (Nat.div_small (L - 1) F) by lia. lia.
  Qed.

  Lemma send_nil ctr : send_sym F ctr [] = ([], ctr).
  Proof. reflexivity. Qed.

  Lemma send_ok ctr payload :
    (ctr + N.of_nat ((length payload + (F - 1)) / F) <= ctr_limit)%N ->
    send F ctr payload = Ok (send_sym F ctr payload).
  Proof.
    intros H. unfold send, send_sym.
    destruct (send_sym_f_counters (length payload) ctr payload) as [_ E].
    rewrite E, send_sym_f_count by lia.
    replace (_ <=? ctr_limit)%N with true by (symmetry; apply N.leb_le; exact H).
    now rewrite orb_true_r.
  Qed.

  Lemma send_crash ctr payload :
    payload <> [] ->
    (ctr_limit < ctr + N.of_nat ((length payload + (F - 1)) / F))%N ->
    send F ctr payload = Crash.
  Proof.
    intros Hne H. unfold send, send_sym.
    destruct (send_sym_f_counters (length payload) ctr payload) as [_ E].
    rewrite E, send_sym_f_count by lia.
    replace (_ <=? ctr_limit)%N with false by (symmetry; apply N.leb_gt; exact H).
    destruct payload as [|b r]; [contradiction|]. reflexivity.
  Qed.
End SendProofs.

(* ------------------------------------------------------------------ acceptance *)
Section Accept.
  Variable F : nat.
  Variable T : nat.
  Variable A : aead.
  Variable key : bytes.
  Hypothesis HA : aead_ok A T.
  Hypothesis F16 : (N.of_nat F < 65536)%N.

  (* frames of the right shape with consecutive counters are accepted one after the
     other by a conformant receiver *)
  Lemma acc_recv_frames : forall fs ctr fuel,
      Forall (frame_shape F) fs ->
      map sf_ctr fs = counters ctr (length fs) ->
      length (concat (map (render A key) fs)) < fuel ->
      acc_recv F T A key fuel ctr (concat (map (render A key) fs))
      = Some (concat (map sf_chunk fs), (ctr + N.of_nat (length fs))%N).
  Proof.
    destruct HA as [HO HL].
    induction fs as [|f r IH]; intros ctr fuel HS HC Hf.
    - destruct fuel as [|fuel]; [cbn in Hf; lia|]. cbn. now rewrite N.add_0_r.
    - inversion HS as [|? ? Hs Hr]; subst.
      destruct Hs as [[Hc1 Hc2] [Hp [Ha Hn]]].
      cbn [map length counters] in HC. injection HC as Hctr HC.
      destruct fuel as [|fuel]; [lia|].
      cbn [map concat] in *. unfold render at 1. unfold render at 1 in Hf.
      rewrite Ha, Hn, Hp, Hctr in *.
      set (c := seal A key (nonce_of ctr) (len16 (sf_chunk f)) (sf_chunk f)) in *.
      set (rest := concat (map (render A key) r)) in *.
      assert (Lc : length c = length (sf_chunk f) + T) by apply HL.
      assert (P16 : (N.of_nat (length (sf_chunk f)) < 65536)%N) by lia.
      assert (L : length ((len16 (sf_chunk f) ++ c) ++ rest) = 2 + (length (sf_chunk f) + T) + length rest)
        by (rewrite !app_length, len16_length; lia).
      cbn [acc_recv].
      replace (nil_b ((len16 (sf_chunk f) ++ c) ++ rest)) with false
        by (destruct ((len16 (sf_chunk f) ++ c) ++ rest); [cbn in L; lia|reflexivity]).
      replace (length ((len16 (sf_chunk f) ++ c) ++ rest) <? 2) with false
        by (symmetry; apply Nat.ltb_ge; lia).
      rewrite <- (app_assoc (len16 (sf_chunk f)) c rest).
      rewrite (firstn_exact 2 (len16 (sf_chunk f))) by apply len16_length.
      rewrite len16_dec by assumption.
      replace (F <? length (sf_chunk f)) with false by (symmetry; apply Nat.ltb_ge; lia).
      rewrite (app_assoc (len16 (sf_chunk f)) c rest).
      replace (length ((len16 (sf_chunk f) ++ c) ++ rest) <? _) with false
        by (symmetry; apply Nat.ltb_ge; lia).
      rewrite <- (app_assoc (len16 (sf_chunk f)) c rest).
      rewrite (skipn_exact 2 (len16 (sf_chunk f))) by apply len16_length.
      rewrite (firstn_exact _ c rest) by assumption.
      unfold c at 1. rewrite HO.
      rewrite (app_assoc (len16 (sf_chunk f)) c rest).
      change (2 + (length (sf_chunk f) + T)) with (S (S (length (sf_chunk f) + T))).
      rewrite (skipn_exact _ (len16 (sf_chunk f) ++ c) rest)
        by (rewrite app_length, len16_length; lia).
      unfold rest. rewrite IH; try assumption.
      + replace (ctr + 1 + N.of_nat (length r))%N with (ctr + N.of_nat (S (length r)))%N by lia.
        reflexivity.
      + fold rest. lia.
  Qed.

  Hypothesis Fpos : 0 < F.

  Lemma send_accepted ctr payload :
    let r := send_frames F A key ctr payload in
    acc_recv F T A key (S (length (concat (fst r)))) ctr (concat (fst r))
    = Some (payload, snd r)
    /\ snd r = (ctr + N.of_nat ((length payload + (F - 1)) / F))%N.
  Proof.
    cbv zeta. unfold send_frames, send_sym. cbn [fst snd].
    pose proof (send_sym_f_counters F) as HCN.
    first [ destruct (HCN Fpos (length payload) ctr payload) as [E1 E2]
          | destruct (HCN (length payload) ctr payload) as [E1 E2] ].
    rewrite acc_recv_frames.
    - rewrite send_sym_f_concat, E2, send_sym_f_count by (assumption || lia). split; reflexivity.
    - apply send_sym_f_shape; assumption.
    - exact E1.
    - lia.
  Qed.

  (* the same stream through the mirror image of the controller's own receiver *)
  Lemma seal_stream_render : forall fs ctr,
      Forall (frame_shape F) fs ->
      map sf_ctr fs = counters ctr (length fs) ->
      concat (map (render A key) fs) = seal_stream A key ctr (map sf_chunk fs).
  Proof.
    induction fs as [|f r IH]; intros ctr HS HC; [reflexivity|].
    inversion HS as [|? ? Hs Hr]; subst.
    destruct Hs as [_ [Hp [Ha Hn]]].
    cbn [map length counters] in HC. injection HC as Hctr HC.
    cbn [map concat seal_stream]. rewrite (IH (ctr + 1)%N) by assumption.
    unfold render, seal_frame. now rewrite Ha, Hn, Hp, Hctr.
  Qed.

  (* ... so the controller's own decoder, keyed with the sending key, would decode a
     request under any segmentation (send and feed are mirror images) *)
  Lemma send_feed ctr payload segs :
    let r := send_frames F A key ctr payload in
    (snd r <= ctr_limit)%N ->
    concat segs = concat (fst r) ->
    feed_all T (open A key) (Live [] ctr) segs
    = (Live [] (snd r), map sf_chunk (fst (send_sym F ctr payload))).
  Proof.
    cbv zeta. unfold send_frames, send_sym. cbn [fst snd]. intros Hc E.
    destruct (send_sym_f_counters F Fpos (length payload) ctr payload) as [E1 E2].
    pose proof (send_sym_f_shape F Fpos (length payload) ctr payload) as HS.
    rewrite (seal_stream_render _ ctr HS E1) in E.
    rewrite E2 in *.
    rewrite <- (map_length sf_chunk) in *.
    apply feed_correct; try assumption.
    apply Forall_forall. intros p Hp. apply in_map_iff in Hp. destruct Hp as [f [<- Hf]].
    rewrite Forall_forall in HS. destruct (HS f Hf) as [[_ Hle] _]. lia.
  Qed.
End Accept.
