(* C14: the executable model (bounded exponents, guards, shortcuts) against the
   ideal decimal arithmetic. *)
From Coq Require Import List NArith ZArith Bool Lia ZifyN ZifyBool.
From AHK Require Import Lib.Res Model.Convert Proofs.ConvertInt Proofs.ConvertDec Proofs.ConvertDiv.
Import ListNotations.
Local Open Scope Z_scope.

(* ------------------------------------------------------------------ *)
(* the shortcuts compute the same                                       *)
(* ------------------------------------------------------------------ *)

Lemma round_drop_f_eq : forall m c k, round_drop_f m c k = round_drop m c k.
Proof.
  intros m c k. unfold round_drop_f. destruct (ndigits c <? k)%N eqn:E; [|reflexivity].
  symmetry. assert (Hk : (1 <= k)%N) by lia.
  assert (Hc : (c < 10 ^ (k - 1))%N).
  { destruct (N.eq_dec c 0) as [->|Hc0]; [apply pow10_pos|].
    destruct (ndigits_spec c Hc0) as [_ [_ Hhi]].
    apply N.lt_le_trans with (m := (10 ^ ndigits c)%N); [exact Hhi|]. apply N.pow_le_mono_r; lia. }
  assert (HP : pow10 k = (10 * 10 ^ (k - 1))%N).
  { unfold pow10. replace k with (N.succ (k - 1)) at 1 by lia. apply N.pow_succ_r'. }
  unfold round_drop. rewrite HP.
  assert (Hd : (c / (10 * 10 ^ (k - 1)) = 0)%N) by (apply N.div_small; lia).
  assert (Hm : (c mod (10 * 10 ^ (k - 1)) = c)%N) by (apply N.mod_small; lia).
  rewrite Hd, Hm. unfold round_up. destruct m.
  - destruct (10 * 10 ^ (k - 1) <=? 2 * c)%N eqn:E1; [lia|reflexivity].
  - destruct (10 * 10 ^ (k - 1) <? 2 * c)%N eqn:E1; [lia|]. destruct (10 * 10 ^ (k - 1) =? 2 * c)%N eqn:E2; [lia|]. reflexivity.
Qed.

Lemma to_integral_f_eq : forall m d, to_integral_f m d = to_integral m d.
Proof. intros. unfold to_integral_f, to_integral. rewrite round_drop_f_eq. reflexivity. Qed.

Lemma dec_to_Z_f_eq : forall d, dec_to_Z_f d = dec_to_Z d.
Proof.
  intro d. unfold dec_to_Z_f. destruct (dcoef d =? 0)%N eqn:E; [|reflexivity].
  assert (H : dcoef d = 0%N) by lia. unfold dec_to_Z. rewrite H.
  destruct (0 <=? dexp d); destruct (dneg d); simpl; try reflexivity.
  all: rewrite N.div_0_l by (assert (P := pow10_pos (Z.to_N (- dexp d))); lia); reflexivity.
Qed.

Lemma svalz_eq : forall d e, svalz d e = sval d e.
Proof.
  intros d e. unfold svalz. destruct (dcoef d =? 0)%N eqn:E; [|reflexivity].
  assert (H : dcoef d = 0%N) by lia. unfold sval, scoef. rewrite H. destruct (dneg d); reflexivity.
Qed.

Lemma dadd_eq : forall cx a b, dadd cx a b = dfix cx (dadd_exact a b).
Proof. intros. unfold dadd, dadd_exact. rewrite !svalz_eq. reflexivity. Qed.

Lemma dsub_eq : forall cx a b, dsub cx a b = dfix cx (dadd_exact a (dneg_of b)).
Proof. intros. unfold dsub. apply dadd_eq. Qed.

Lemma dmul_eq : forall cx a b, dmul cx a b = dfix cx (dmul_exact a b).
Proof. reflexivity. Qed.

Lemma ddiv_eq : forall cx a b, ddiv cx a b = option_map (dfix cx) (ddiv_exact cx a b).
Proof.
  intros. unfold ddiv, ddiv_exact. destruct (dcoef b =? 0)%N; [reflexivity|].
  destruct (dcoef a =? 0)%N; reflexivity.
Qed.

(* magnitudes are ordered like adjusted exponents *)
Lemma mag_lt : forall a b e, dcoef a <> 0%N -> dcoef b <> 0%N -> e <= dexp a -> e <= dexp b ->
  adjusted a < adjusted b ->
  Z.of_N (dcoef a) * 10 ^ (dexp a - e) < Z.of_N (dcoef b) * 10 ^ (dexp b - e).
Proof.
  intros a b e Ha Hb Ea Eb H. unfold adjusted in H.
  destruct (ndigits_specZ _ Ha) as [Ha1 [_ Hahi]]. destruct (ndigits_specZ _ Hb) as [Hb1 [Hblo _]].
  set (Da := Z.of_N (ndigits (dcoef a))) in *. set (Db := Z.of_N (ndigits (dcoef b))) in *.
  assert (P1 : 0 < 10 ^ (dexp a - e)) by (apply p10_pos; lia).
  assert (P2 : 0 < 10 ^ (dexp b - e)) by (apply p10_pos; lia).
  assert (L1 : Z.of_N (dcoef a) * 10 ^ (dexp a - e) < 10 ^ Da * 10 ^ (dexp a - e)) by (apply Z.mul_lt_mono_pos_r; lia).
  assert (L2 : 10 ^ (Db - 1) * 10 ^ (dexp b - e) <= Z.of_N (dcoef b) * 10 ^ (dexp b - e)) by (apply Z.mul_le_mono_nonneg_r; lia).
  rewrite <- Z.pow_add_r in L1 by lia. rewrite <- Z.pow_add_r in L2 by lia.
  assert (L3 : 10 ^ (Da + (dexp a - e)) <= 10 ^ (Db - 1 + (dexp b - e))) by (apply Z.pow_le_mono_r; lia).
  lia.
Qed.

Lemma dcmp_eq : forall a b, dcmp a b = dcompare a b.
Proof.
  intros a b. unfold dcmp, dcompare.
  set (e := Z.min (dexp a) (dexp b)).
  assert (Ea : e <= dexp a) by (unfold e; lia). assert (Eb : e <= dexp b) by (unfold e; lia).
  assert (Pa : 0 < 10 ^ (dexp a - e)) by (apply p10_pos; lia).
  assert (Pb : 0 < 10 ^ (dexp b - e)) by (apply p10_pos; lia).
  unfold sval, scoef.
  destruct (dcoef a =? 0)%N eqn:Za.
  - assert (Ha : dcoef a = 0%N) by lia. rewrite Ha. 
    replace (if dneg a then - Z.of_N 0 else Z.of_N 0) with 0 by (destruct (dneg a); reflexivity). rewrite Z.mul_0_l.
    destruct (dcoef b =? 0)%N eqn:Zb.
    + assert (Hb : dcoef b = 0%N) by lia. rewrite Hb.
      replace (if dneg b then - Z.of_N 0 else Z.of_N 0) with 0 by (destruct (dneg b); reflexivity). reflexivity.
    + assert (0 < Z.of_N (dcoef b) * 10 ^ (dexp b - e)) by nia.
      destruct (dneg b); symmetry; [apply Z.compare_gt_iff|apply Z.compare_lt_iff]; nia.
  - assert (HA : 0 < Z.of_N (dcoef a) * 10 ^ (dexp a - e)) by nia.
    destruct (dcoef b =? 0)%N eqn:Zb.
    + assert (Hb : dcoef b = 0%N) by lia. rewrite Hb.
      replace (if dneg b then - Z.of_N 0 else Z.of_N 0) with 0 by (destruct (dneg b); reflexivity). rewrite Z.mul_0_l.
      destruct (dneg a); symmetry; [apply Z.compare_lt_iff|apply Z.compare_gt_iff]; nia.
    + assert (HB : 0 < Z.of_N (dcoef b) * 10 ^ (dexp b - e)) by nia.
      assert (Ha : dcoef a <> 0%N) by lia. assert (Hb : dcoef b <> 0%N) by lia.
      destruct (dneg a) eqn:Sa, (dneg b) eqn:Sb; simpl negb; cbv iota.
      * (* both negative *)
        destruct (adjusted a <? adjusted b) eqn:L1.
        -- assert (M := mag_lt a b e Ha Hb Ea Eb ltac:(lia)). symmetry. apply Z.compare_gt_iff. nia.
        -- destruct (adjusted b <? adjusted a) eqn:L2; [|reflexivity].
           assert (M := mag_lt b a e Hb Ha Eb Ea ltac:(lia)). symmetry. apply Z.compare_lt_iff. nia.
      * symmetry. apply Z.compare_lt_iff. nia.
      * symmetry. apply Z.compare_gt_iff. nia.
      * destruct (adjusted a <? adjusted b) eqn:L1.
        -- assert (M := mag_lt a b e Ha Hb Ea Eb ltac:(lia)). symmetry. apply Z.compare_lt_iff. nia.
        -- destruct (adjusted b <? adjusted a) eqn:L2; [|reflexivity].
           assert (M := mag_lt b a e Hb Ha Eb Ea ltac:(lia)). symmetry. apply Z.compare_gt_iff. nia.
Qed.

Lemma py_max_f_eq : forall a b, py_max_f a b = py_max a b.
Proof. intros. unfold py_max_f, py_max. rewrite dcmp_eq. reflexivity. Qed.
Lemma py_min_f_eq : forall a b, py_min_f a b = py_min a b.
Proof. intros. unfold py_min_f, py_min. rewrite dcmp_eq. reflexivity. Qed.
Lemma clamp_f_eq : forall omin omax v, clamp_f omin omax v = clamp omin omax v.
Proof. intros. unfold clamp_f, clamp. destruct omin, omax; rewrite ?py_min_f_eq, ?py_max_f_eq; reflexivity. Qed.
Lemma is_integral_f_eq : forall m d, is_integral_f m d = is_integral m d.
Proof. intros. unfold is_integral_f, is_integral. rewrite dcmp_eq, to_integral_f_eq. reflexivity. Qed.

(* ------------------------------------------------------------------ *)
(* _fix with Emax / Etiny against the unbounded _fix                    *)
(* ------------------------------------------------------------------ *)

(* an exact result in decimal's normal range: exponent not below Etiny, and (after
   a possible carry) adjusted exponent not above Emax *)
Definition normal (cx : ctx) (d : dec) : Prop :=
  etiny cx <= dexp d /\ (if (dcoef d =? 0)%N then dexp d <= emax else adjusted d < emax).

Lemma dfixb_normal : forall cx d, (1 <= cprec cx)%N -> normal cx d -> dfixb cx d = Some (dfix cx d).
Proof.
  intros cx d Hp [Ht Hn]. unfold dfixb.
  destruct (dcoef d =? 0)%N eqn:Z0.
  - assert (Hc : dcoef d = 0%N) by lia.
    rewrite dfix_short by (rewrite Hc, ndigits_0; lia).
    rewrite Z.max_l by lia. rewrite Z.min_l by lia.
    destruct d as [s c e]. simpl in *. subst c. reflexivity.
  - unfold adjusted in Hn. set (n := Z.of_N (ndigits (dcoef d))) in *. set (p := Z.of_N (cprec cx)).
    assert (Etop : etop cx = emax - p + 1) by reflexivity.
    destruct (etop cx <? n + dexp d - p) eqn:E1; [lia|].
    destruct (N.le_gt_cases (ndigits (dcoef d)) (cprec cx)) as [S|L].
    + rewrite dfix_short by assumption.
      destruct (dexp d <? Z.max (n + dexp d - p) (etiny cx)) eqn:E2; [unfold n, p in *; lia|reflexivity].
    + assert (Em : Z.max (n + dexp d - p) (etiny cx) = dexp d + Z.of_N (ndigits (dcoef d) - cprec cx)) by (unfold n, p; lia).
      rewrite Em.
      destruct (dexp d <? dexp d + Z.of_N (ndigits (dcoef d) - cprec cx)) eqn:E2; [|lia].
      replace (Z.to_N (dexp d + Z.of_N (ndigits (dcoef d) - cprec cx) - dexp d)) with (ndigits (dcoef d) - cprec cx)%N by lia.
      rewrite round_drop_f_eq. unfold dfix.
      destruct (ndigits (dcoef d) <=? cprec cx)%N eqn:E3; [lia|].
      destruct (ndigits (round_drop (crnd cx) (dcoef d) (ndigits (dcoef d) - cprec cx)) <=? cprec cx)%N; [reflexivity|].
      destruct (etop cx <? dexp d + Z.of_N (ndigits (dcoef d) - cprec cx) + 1) eqn:E4; [unfold n, p in *; lia|reflexivity].
Qed.

(* a long coefficient rounds to exactly p digits (with or without the carry) *)
Lemma long_branches : forall m c p, (1 <= p)%N -> (p < ndigits c)%N ->
  let c' := round_drop m c (ndigits c - p) in
  ((ndigits c' <=? p)%N = true -> ndigits c' = p) /\ ((ndigits c' <=? p)%N = false -> ndigits (c' / 10)%N = p).
Proof.
  intros m c p Hp L c'. set (k0 := (ndigits c - p)%N) in *.
  assert (Hc0 : c <> 0%N). { intro Z0. rewrite Z0, ndigits_0 in L. lia. }
  destruct (ndigits_spec c Hc0) as [_ [Hlo Hhi]].
  assert (HP := pow10_pos k0).
  destruct (round_drop_bound m c k0) as [Hc' _]. fold c' in Hc'.
  assert (Hq1 : (10 ^ (p - 1) <= c / pow10 k0)%N).
  { apply N.div_le_lower_bound; [lia|]. unfold pow10. rewrite <- N.pow_add_r.
    replace (k0 + (p - 1))%N with (ndigits c - 1)%N by lia. exact Hlo. }
  assert (Hq2 : (c / pow10 k0 < 10 ^ p)%N).
  { apply N.div_lt_upper_bound; [lia|]. unfold pow10. rewrite <- N.pow_add_r.
    replace (k0 + p)%N with (ndigits c) by lia. exact Hhi. }
  assert (Hlow : (10 ^ (p - 1) <= c')%N) by lia.
  assert (Hp1 : (10 ^ p = 10 * 10 ^ (p - 1))%N).
  { replace p with (N.succ (p - 1)) at 1 by lia. apply N.pow_succ_r'. }
  split; intro E.
  - assert (p - 1 < ndigits c')%N by (apply ndigits_gt; exact Hlow). lia.
  - assert (Hge : (10 ^ p <= c')%N).
    { destruct (N.lt_ge_cases c' (10 ^ p)) as [Lt|Ge]; [apply ndigits_le in Lt; lia|exact Ge]. }
    assert (Heq : c' = (10 ^ p)%N) by lia.
    rewrite Heq, Hp1, N.mul_comm, N.div_mul by lia.
    assert (p - 1 < ndigits (10 ^ (p - 1)))%N by (apply ndigits_gt; lia).
    assert (ndigits (10 ^ (p - 1)) <= p)%N by (apply ndigits_le; apply N.pow_lt_mono_r; lia).
    lia.
Qed.

(* decimal.Overflow is raised exactly when the ideally rounded result is too large for Emax *)
Lemma dfixb_overflow : forall cx d, (1 <= cprec cx)%N ->
  (dfixb cx d = None <-> dcoef d <> 0%N /\ emax < adjusted (dfix cx d)).
Proof.
  intros cx d Hp. unfold dfixb.
  destruct (dcoef d =? 0)%N eqn:Z0; [split; [discriminate|intros [H _]; lia]|].
  assert (Hc : dcoef d <> 0%N) by lia.
  set (n := Z.of_N (ndigits (dcoef d))). set (p := Z.of_N (cprec cx)).
  assert (Etop : etop cx = emax - p + 1) by reflexivity.
  assert (Etiny : etiny cx = emin - p + 1) by reflexivity.
  assert (Hem : emin < emax) by (unfold emin, emax; lia).
  destruct (N.le_gt_cases (ndigits (dcoef d)) (cprec cx)) as [S|L].
  - (* short coefficient: the ideal _fix changes nothing *)
    rewrite dfix_short by assumption. unfold adjusted. fold n.
    destruct (etop cx <? n + dexp d - p) eqn:E1; [split; [intros _; split; [assumption|lia]|reflexivity]|].
    destruct (dexp d <? Z.max (n + dexp d - p) (etiny cx)) eqn:E2.
    + (* subnormal: rounded at Etiny, far below Emax *)
      set (c' := round_drop_f _ _ _).
      destruct (ndigits c' <=? cprec cx)%N; [split; [discriminate|intros [_ H]; unfold n, p in *; lia]|].
      destruct (etop cx <? Z.max (n + dexp d - p) (etiny cx) + 1) eqn:E3; [unfold n, p in *; lia|].
      split; [discriminate|intros [_ H]; unfold n, p in *; lia].
    + split; [discriminate|intros [_ H]; lia].
  - destruct (dfix_long cx d Hp L) as [k [He [_ [Hv [Hk Hd]]]]].
    set (k0 := (ndigits (dcoef d) - cprec cx)%N) in *.
    assert (Hn : n = p + Z.of_N k0) by (unfold n, p, k0; lia).
    (* adjusted exponent of the ideal result: adj d, or adj d + 1 after a carry *)
    unfold dfix in *. destruct (ndigits (dcoef d) <=? cprec cx)%N eqn:E0; [lia|]. fold k0 in He, Hv, Hd |- *.
    set (c' := round_drop (crnd cx) (dcoef d) k0) in *.
    assert (LB := long_branches (crnd cx) (dcoef d) (cprec cx) Hp L). fold k0 in LB. fold c' in LB. cbv zeta in LB.
    destruct (etop cx <? n + dexp d - p) eqn:E1.
    + split; [intros _; split; [assumption|]|reflexivity].
      destruct (ndigits c' <=? cprec cx)%N eqn:E5; unfold adjusted; cbn [dexp dcoef];
        [rewrite (proj1 LB eq_refl)|rewrite (proj2 LB eq_refl)]; unfold n, p in *; lia.
    + destruct (dexp d <? Z.max (n + dexp d - p) (etiny cx)) eqn:E2; [|lia].
      destruct (Z_le_gt_dec (etiny cx) (n + dexp d - p)) as [N1|N1].
      * (* normal range: same rounding as the ideal _fix *)
        rewrite Z.max_l by lia.
        replace (Z.to_N (n + dexp d - p - dexp d)) with k0 by lia. rewrite round_drop_f_eq. fold c'.
        destruct (ndigits c' <=? cprec cx)%N eqn:E5.
        -- split; [discriminate|intros [_ H]]. unfold adjusted in H. cbn [dexp dcoef] in H. rewrite (proj1 LB eq_refl) in H. unfold n, p in *. lia.
        -- destruct (etop cx <? n + dexp d - p + 1) eqn:E6.
           ++ split; [intros _; split; [assumption|]|reflexivity].
              unfold adjusted. cbn [dexp dcoef]. rewrite (proj2 LB eq_refl). unfold n, p in *. lia.
           ++ split; [discriminate|intros [_ H]]. unfold adjusted in H. cbn [dexp dcoef] in H. rewrite (proj2 LB eq_refl) in H. unfold n, p in *. lia.
      * (* subnormal: rounded at Etiny; no overflow on either side *)
        rewrite Z.max_r by lia. set (cb := round_drop_f _ _ _).
        assert (Hideal : adjusted (if (ndigits c' <=? cprec cx)%N then mkDec (dneg d) c' (dexp d + Z.of_N k0)
                                   else mkDec (dneg d) (c' / 10)%N (dexp d + Z.of_N k0 + 1)) <= emax).
        { unfold adjusted. destruct (ndigits c' <=? cprec cx)%N eqn:E5; cbn [dexp dcoef];
            [rewrite (proj1 LB eq_refl)|rewrite (proj2 LB eq_refl)]; unfold n, p, emin, emax in *; lia. }
        destruct (ndigits cb <=? cprec cx)%N; [split; [discriminate|intros [_ H]; lia]|].
        destruct (etop cx <? etiny cx + 1) eqn:E7; [unfold p in *; lia|].
        split; [discriminate|intros [_ H]; lia].
Qed.

(* ------------------------------------------------------------------ *)
(* the six-digit chain: bounded = ideal while every exact intermediate   *)
(* result is in the normal range                                        *)
(* ------------------------------------------------------------------ *)

Lemma ctx6_p : (1 <= cprec ctx6)%N.
Proof. unfold ctx6. simpl. lia. Qed.

Definition chain_normal (c off s : dec) : Prop :=
  let x1 := dadd_exact c (dneg_of off) in
  normal ctx6 x1 /\
  match ddiv_exact ctx6 (dfix ctx6 x1) s with
  | None => True
  | Some x2 =>
      normal ctx6 x2 /\
      let x3 := dmul_exact (to_integral_f HalfUp (dfix ctx6 x2)) s in
      normal ctx6 x3 /\ normal ctx6 (dadd_exact off (dfix ctx6 x3))
  end.

Lemma snap_decb_ideal : forall c off s, chain_normal c off s ->
  snap_decb c off s = match snap_dec c off s with Ok r => Some r | _ => None end.
Proof.
  intros c off s [N1 H]. unfold snap_decb, snap_dec, dsubb, daddb, ddivb, dmulb.
  rewrite (dfixb_normal _ _ ctx6_p N1). rewrite dsub_eq, ddiv_eq.
  destruct (ddiv_exact ctx6 (dfix ctx6 (dadd_exact c (dneg_of off))) s) as [x2|]; [|reflexivity].
  destruct H as [N2 [N3 N4]]. simpl option_map.
  rewrite (dfixb_normal _ _ ctx6_p N2).
  rewrite (dfixb_normal _ _ ctx6_p N3). rewrite (dfixb_normal _ _ ctx6_p N4).
  rewrite dadd_eq, dmul_eq, to_integral_f_eq. reflexivity.
Qed.

(* ------------------------------------------------------------------ *)
(* the magnitude guard on integer-valued decimals                       *)
(* ------------------------------------------------------------------ *)

Lemma too_big_isZ : forall d z, dec_is_Z d z -> too_big d = (10 ^ 309 <=? Z.abs z).
Proof.
  intros d z H. unfold too_big. rewrite (isZ_zero_coef d z H).
  destruct (z =? 0) eqn:Z0.
  - cbn [negb andb]. assert (z = 0) by lia. subst z. symmetry. apply Z.leb_gt. change (Z.abs 0) with 0. apply p10_pos. lia.
  - cbn [negb]. rewrite andb_true_l.
    assert (Hc : dcoef d <> 0%N). { intro C. assert (E := isZ_zero_coef d z H). rewrite C in E. simpl in E. lia. }
    destruct (ndigits_specZ _ Hc) as [Hn1 [Hlo Hhi]]. unfold adjusted.
    set (n := Z.of_N (ndigits (dcoef d))) in *.
    destruct (Z_le_gt_dec 0 (dexp d)) as [Pe|Ne].
    + assert (Hz : Z.abs z = Z.of_N (dcoef d) * 10 ^ dexp d).
      { unfold dec_is_Z in H. destruct (0 <=? dexp d) eqn:E; [|lia]. rewrite H, Z.abs_mul.
        rewrite (Z.abs_eq (10 ^ dexp d)) by (apply Z.pow_nonneg; lia). f_equal. unfold scoef. destruct (dneg d); lia. }
      assert (P := p10_pos (dexp d) Pe).
      destruct (308 <? dexp d + n - 1) eqn:E1; symmetry.
      * apply Z.leb_le. rewrite Hz.
        apply Z.le_trans with (m := 10 ^ (n - 1) * 10 ^ dexp d); [|apply Z.mul_le_mono_nonneg_r; lia].
        rewrite <- Z.pow_add_r by lia. apply Z.pow_le_mono_r; lia.
      * apply Z.leb_gt. rewrite Hz.
        apply Z.lt_le_trans with (m := 10 ^ n * 10 ^ dexp d); [apply Z.mul_lt_mono_pos_r; lia|].
        rewrite <- Z.pow_add_r by lia. apply Z.pow_le_mono_r; lia.
    + destruct (isZ_coef_div d z ltac:(lia) H) as [Hcz _].
      assert (P := p10_pos (- dexp d) ltac:(lia)).
      destruct (308 <? dexp d + n - 1) eqn:E1; symmetry.
      * apply Z.leb_le.
        assert (10 ^ 309 * 10 ^ (- dexp d) <= Z.abs z * 10 ^ (- dexp d)); [|nia].
        rewrite <- Hcz. rewrite <- Z.pow_add_r by lia.
        apply Z.le_trans with (m := 10 ^ (n - 1)); [apply Z.pow_le_mono_r; lia|exact Hlo].
      * apply Z.leb_gt.
        assert (Z.abs z * 10 ^ (- dexp d) < 10 ^ 309 * 10 ^ (- dexp d)); [|nia].
        rewrite <- Hcz. rewrite <- Z.pow_add_r by lia.
        apply Z.lt_le_trans with (m := 10 ^ n); [exact Hhi|apply Z.pow_le_mono_r; lia].
Qed.

(* ------------------------------------------------------------------ *)
(* check_convert (the model of the code)                                *)
(* ------------------------------------------------------------------ *)

Lemma cc_number : forall f omin omax ostep s r, f <> FBool ->
  check_convert f omin omax ostep s r = convert_number f omin omax ostep r /\
  ideal_convert f omin omax ostep s r = ideal_number f omin omax ostep r.
Proof. intros f omin omax ostep s r Hf. destruct f; try congruence; split; reflexivity. Qed.

Lemma convertb_total_lemma : forall f omin omax ostep s r,
  (exists v, check_convert f omin omax ostep s r = Ok v) \/
  check_convert f omin omax ostep s r = Err FormatError.
Proof.
  intros f omin omax ostep s r.
  assert (N : (exists v, convert_number f omin omax ostep r = Ok v) \/
              convert_number f omin omax ostep r = Err FormatError).
  { unfold convert_number. destruct r as [v| |]; [|right; reflexivity..].
    destruct (too_big (clamp_f omin omax v)); [right; reflexivity|].
    set (c := clamp_f omin omax v).
    assert (Fin : forall v3, (exists x, (if is_integer_fmt f then Ok (VInt (dec_to_Z_f (to_integral_f HalfEven v3)))
                                        else if float_finite v3 then Ok (VDec v3) else Err FormatError) = Ok x) \/
                             (if is_integer_fmt f then Ok (VInt (dec_to_Z_f (to_integral_f HalfEven v3)))
                              else if float_finite v3 then Ok (VDec v3) else Err FormatError) = @Err cerr cval FormatError).
    { intro v3. destruct (is_integer_fmt f); [left; eexists; reflexivity|].
      destruct (float_finite v3); [left; eexists; reflexivity|right; reflexivity]. }
    assert (S : forall st, (exists v3, snap f omin c st = Ok v3) \/ snap f omin c st = Err FormatError).
    { intro st. unfold snap. destruct (is_integer_fmt f && _ && _ && _); [left; eexists; reflexivity|].
      destruct (snap_decb c _ st); [left; eexists; reflexivity|right; reflexivity]. }
    destruct ostep as [st|].
    - destruct (dcoef st =? 0)%N; [simpl; apply Fin|].
      destruct (S st) as [[v3 ->]| ->]; [simpl; apply Fin|right; reflexivity].
    - simpl. apply Fin. }
  destruct f; try exact N.
  simpl. destruct (strtobool s) as [b|]; [left; eexists; reflexivity|right; reflexivity].
Qed.

Lemma rejectb_lemma : forall f omin omax ostep s r,
  f <> FBool -> (r = RReject \/ r = RNonFinite) ->
  check_convert f omin omax ostep s r = Err FormatError.
Proof.
  intros f omin omax ostep s r Hf Hr.
  destruct f; try congruence; destruct Hr as [-> | ->]; reflexivity.
Qed.

Lemma boolb_lemma : forall omin omax ostep s r,
  check_convert FBool omin omax ostep s r =
  match strtobool s with Some true => Ok (VInt 1) | Some false => Ok (VInt 0) | None => Err FormatError end.
Proof. intros. simpl. destruct (strtobool s) as [[|]|]; reflexivity. Qed.

Lemma bool_same : forall omin omax ostep s r,
  check_convert FBool omin omax ostep s r = ideal_convert FBool omin omax ostep s r.
Proof. reflexivity. Qed.

Lemma int_is_intb_lemma : forall f omin omax ostep s r v,
  is_integer_fmt f = true -> check_convert f omin omax ostep s r = Ok v -> exists z, v = VInt z.
Proof.
  intros f omin omax ostep s r v Hf H.
  rewrite (proj1 (cc_number f omin omax ostep s r ltac:(destruct f; discriminate))) in H.
  unfold convert_number in H. destruct r; try discriminate.
  destruct (too_big _); [discriminate|]. rewrite Hf in H.
  destruct (match ostep with Some s0 => _ | None => _ end); simpl in H; try discriminate.
  injection H as <-. eexists; reflexivity.
Qed.

Lemma float_is_decb_lemma : forall omin omax ostep s r v,
  check_convert FFloat omin omax ostep s r = Ok v -> exists d, v = VDec d /\ float_finite d = true.
Proof.
  intros omin omax ostep s r v H. simpl in H. unfold convert_number in H. destruct r; try discriminate.
  destruct (too_big _); [discriminate|]. simpl in H.
  destruct (match ostep with Some s0 => _ | None => _ end); simpl in H; try discriminate.
  destruct (float_finite a) eqn:E; [|discriminate]. injection H as <-. eexists; split; [reflexivity|exact E].
Qed.

(* what the two guards of the repaired code do to an ideal result *)
Definition guards (c : dec) (r : res cerr cval) : res cerr cval :=
  if too_big c then Err FormatError
  else match r with
       | Ok (VDec d) => if float_finite d then r else Err FormatError
       | _ => r
       end.

(* no intermediate result of the six-digit path leaves decimal's normal exponent range *)
Definition normal_run (f : fmt) (omin omax ostep : option dec) (v : dec) : Prop :=
  match ostep with
  | Some s =>
      dcoef s <> 0%N ->
      let c := clamp omin omax v in
      let off := match omin with Some m => m | None => dzero end in
      is_integer_fmt f && is_integral HalfUp c && is_integral HalfUp off && is_integral HalfUp s = false ->
      chain_normal c off s
  | None => True
  end.

Lemma fmt_eq_bool : forall f, f = FBool \/ f <> FBool.
Proof. destruct f; [left; reflexivity|right; discriminate..]. Qed.

Ltac fin := rewrite ?dec_to_Z_f_eq, ?to_integral_f_eq; destruct (is_integer_fmt _); [reflexivity|];
  match goal with |- context [float_finite ?x] => destruct (float_finite x); reflexivity end.

Lemma refine_lemma : forall f omin omax ostep str v,
  f <> FBool -> normal_run f omin omax ostep v ->
  check_convert f omin omax ostep str (RFin v) =
  guards (clamp omin omax v) (ideal_convert f omin omax ostep str (RFin v)).
Proof.
  intros f omin omax ostep str v Hf HN.
  destruct (cc_number f omin omax ostep str (RFin v) Hf) as [-> ->].
  unfold convert_number, ideal_number, guards. rewrite clamp_f_eq.
  set (c := clamp omin omax v) in *.
  destruct (too_big c); [reflexivity|].
  destruct ostep as [st|]; [|simpl; fin].
  destruct (dcoef st =? 0)%N eqn:Es; [simpl; fin|].
  unfold snap, ideal_snap. rewrite !is_integral_f_eq, !dec_to_Z_f_eq.
  set (off := match omin with Some m => m | None => dzero end) in *.
  destruct (is_integer_fmt f && is_integral HalfUp c && is_integral HalfUp off && is_integral HalfUp st) eqn:Eb.
  - simpl. fin.
  - simpl in HN. specialize (HN ltac:(lia) Eb).
    rewrite (snap_decb_ideal c off st HN).
    unfold snap_dec. unfold ddiv. rewrite Es.
    destruct (dcoef (dsub ctx6 c off) =? 0)%N; simpl; fin.
Qed.

(* ------------------------------------------------------------------ *)
(* integer formats, integer-valued input: exact, with the magnitude guard *)
(* ------------------------------------------------------------------ *)

Lemma int_normal_run : forall f omin omax ostep ozmin ozmax ozstep v zv,
  is_integer_fmt f = true ->
  orel omin ozmin -> orel omax ozmax -> orel ostep ozstep -> dec_is_Z v zv ->
  normal_run f omin omax ostep v.
Proof.
  intros f omin omax ostep ozmin ozmax ozstep v zv Hf Hmin Hmax Hstep Hv.
  unfold normal_run. destruct ostep as [st|]; [|exact I]. intros _. cbv zeta. intro Hb. exfalso.
  destruct ozstep as [zs|]; simpl in Hstep; [|contradiction].
  assert (Hc := clamp_isZ omin omax ozmin ozmax v zv Hmin Hmax Hv).
  assert (Hoff : dec_is_Z (match omin with Some m => m | None => dzero end) (offZ ozmin)).
  { destruct omin, ozmin; simpl in Hmin; try contradiction; [assumption|apply dzero_isZ]. }
  rewrite Hf, (is_integral_isZ HalfUp _ _ Hc), (is_integral_isZ HalfUp _ _ Hoff), (is_integral_isZ HalfUp st zs Hstep) in Hb.
  discriminate.
Qed.

Lemma int_fmt_not_bool : forall f, is_integer_fmt f = true -> f <> FBool.
Proof. intros f H E. subst f. discriminate. Qed.

Lemma int_exactb_lemma : forall f omin omax ostep ozmin ozmax ozstep s v zv,
  is_integer_fmt f = true ->
  orel omin ozmin -> orel omax ozmax -> orel ostep ozstep -> dec_is_Z v zv ->
  check_convert f omin omax ostep s (RFin v) =
  if 10 ^ 309 <=? Z.abs (clampZ ozmin ozmax zv) then Err FormatError
  else Ok (VInt (spec_int ozmin ozmax ozstep zv)).
Proof.
  intros f omin omax ostep ozmin ozmax ozstep s v zv Hf Hmin Hmax Hstep Hv.
  rewrite (refine_lemma f omin omax ostep s v (int_fmt_not_bool f Hf)
             (int_normal_run f omin omax ostep ozmin ozmax ozstep v zv Hf Hmin Hmax Hstep Hv)).
  rewrite (int_exact_lemma f omin omax ostep ozmin ozmax ozstep s v zv Hf Hmin Hmax Hstep Hv).
  unfold guards. rewrite (too_big_isZ _ _ (clamp_isZ omin omax ozmin ozmax v zv Hmin Hmax Hv)). reflexivity.
Qed.

(* non-vacuity of the normal-range premise: the lennox case, and a value next to nothing *)
Lemma chain_normal_example :
  chain_normal (mkDec false 2726 (-2)) (mkDec false 10 0) (mkDec false 5 (-1)) /\
  chain_normal (mkDec false 1 (-1000000)) dzero (mkDec false 5 (-1)).
Proof.
  split; unfold chain_normal, normal, etiny, emax, emin; vm_compute; repeat split; discriminate.
Qed.
