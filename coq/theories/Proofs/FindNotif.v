(* C19 - encrypted notifications inside the scanner callback never raise (repaired code);
   witnesses that the code as found does *)
From Coq Require Import List NArith ZArith Arith Bool Lia ZifyN ZifyNat ZifyBool.
From AHK Require Import Lib.Res Lib.ByteStr Model.Find Proofs.FindLts Proofs.FindParse.
Import ListNotations.
Open Scope N_scope.

Lemma notif_handle_guarded p opens : snd (notif_handle true p opens) <> NRaisedOut.
Proof.
  unfold notif_handle. destruct (negb (np_key p)); [discriminate|].
  destruct (np_sn p) as [start|]; [|discriminate].
  destruct (first_open (cands start) opens) as [[c pt]|]; [|discriminate].
  destruct (c =? start); [discriminate|].
  destruct (negb (le_dec (slice pt 0 2) =? c)); [discriminate|].
  destruct (np_db p) as [db|]; [|discriminate].
  destruct (nlookup (le_dec (slice pt 2 4)) db) as [f|]; [|discriminate].
  destruct (from_bytes_chk f (slice pt 4 12)); discriminate.
Qed.

(* what the repaired handler does when the payload opens at a fresh state number c with matching inner
   number: the state number IS advanced (replays stay ignored), whatever happens to the value *)
Lemma notif_handle_advances guard p opens start c pt :
  np_key p = true -> np_sn p = Some start ->
  first_open (cands start) opens = Some (c, pt) -> c <> start -> le_dec (slice pt 0 2) = c ->
  np_sn (fst (notif_handle guard p opens)) = Some c.
Proof.
  intros K S F N G. unfold notif_handle. rewrite K, S, F. cbn [negb].
  destruct (c =? start) eqn:E; [apply N.eqb_eq in E; congruence|].
  rewrite G, N.eqb_refl. cbn [negb].
  destruct (np_db p) as [db|]; [|reflexivity].
  destruct (nlookup (le_dec (slice pt 2 4)) db) as [f|]; [|reflexivity].
  destruct (from_bytes_chk f (slice pt 4 12)); reflexivity.
Qed.

(* everything else leaves the pairing untouched *)
Lemma notif_handle_keeps guard p opens :
  match snd (notif_handle guard p opens) with
  | NNoKey | NNoDescription | NUndecryptable | NStale | NMismatch => fst (notif_handle guard p opens) = p
  | _ => True
  end.
Proof.
  unfold notif_handle. destruct (negb (np_key p)); [reflexivity|].
  destruct (np_sn p) as [start|]; [|reflexivity].
  destruct (first_open (cands start) opens) as [[c pt]|]; [|reflexivity].
  destruct (c =? start); [reflexivity|].
  destruct (negb (le_dec (slice pt 0 2) =? c)); [reflexivity|].
  destruct (np_db p) as [db|]; [|destruct guard; exact I].
  destruct (nlookup (le_dec (slice pt 2 4)) db) as [f|]; [|destruct guard; exact I].
  destruct (from_bytes_chk f (slice pt 4 12)); try exact I; destruct guard; exact I.
Qed.

(* a delivered value was decodable in the characteristic's format *)
Lemma notif_delivered_decodable guard p opens iid :
  snd (notif_handle guard p opens) = NDelivered iid ->
  exists db f start c pt, np_db p = Some db /\ nlookup iid db = Some f /\ np_sn p = Some start
    /\ first_open (cands start) opens = Some (c, pt) /\ iid = le_dec (slice pt 2 4)
    /\ from_bytes_chk f (slice pt 4 12) = Ok tt.
Proof.
  unfold notif_handle. destruct (negb (np_key p)); [discriminate|].
  destruct (np_sn p) as [start|]; [|discriminate].
  destruct (first_open (cands start) opens) as [[c pt]|] eqn:F; [|discriminate].
  destruct (c =? start); [discriminate|].
  destruct (negb (le_dec (slice pt 0 2) =? c)); [discriminate|].
  destruct (np_db p) as [db|]; [|destruct guard; discriminate].
  destruct (nlookup (le_dec (slice pt 2 4)) db) as [f|] eqn:L; [|destruct guard; discriminate].
  destruct (from_bytes_chk f (slice pt 4 12)) as [[]| | |] eqn:B; cbn [snd]; try (destruct guard; discriminate).
  intros H. inversion H; subst. exists db, f, start, c, pt. auto 10.
Qed.

(* the complete scanner callback *)
Lemma ble_callback_full_no_raise c s nps opens md :
  good c -> ~ In Raised (snd (fst (ble_callback_full c true s nps opens md))).
Proof.
  intros G. unfold ble_callback_full.
  assert (Plain : ~ In Raised (snd (fst (let (s', o) := ble_callback c s md in
            (s', match md, o with
                 | Some (6 :: _), [Raised] => nps
                 | Some (6 :: _), _ =>
                     match adv_parse md with
                     | Ok a => match alookup (ha_id a) nps with
                               | Some p => nupdate (ha_id a) (set_sn p (ha_sn a)) nps
                               | None => nps
                               end
                     | _ => nps
                     end
                 | _, _ => nps
                 end, o, @None nres))))).
  { pose proof (ble_callback_no_raise c s md G) as H. destruct (ble_callback c s md) as [s' o]. exact H. }
  destruct md as [[|t rest]|]; try exact Plain.
  destruct t as [|t]; try exact Plain.
  do 5 (try (destruct t as [t|t|]; try exact Plain)).
  (* t = 17 *)
  destruct (notif_parse_total (@Some bytes (17 :: rest))) as [[n ->]| ->]; [|cbn; tauto].
  destruct (alookup (hn_id n) nps) as [p|]; [|cbn; tauto].
  pose proof (notif_handle_guarded p opens) as NG.
  destruct (notif_handle true p opens) as [p' r]. cbn [snd] in NG. cbn [fst snd].
  destruct r; cbn; try tauto; try congruence.
Qed.

(* on the waiter tables and outputs the complete callback is the callback of Props.callback_never_raises_ble *)
Lemma ble_callback_full_agrees c guard s nps opens md :
  (forall rest, md <> Some (17 :: rest)) ->
  let r := ble_callback_full c guard s nps opens md in
  (fst (fst (fst r)), snd (fst r)) = ble_callback c s md.
Proof.
  intros H. unfold ble_callback_full.
  assert (Plain : let r := (let (s', o) := ble_callback c s md in
            (s', match md, o with
                 | Some (6 :: _), [Raised] => nps
                 | Some (6 :: _), _ =>
                     match adv_parse md with
                     | Ok a => match alookup (ha_id a) nps with
                               | Some p => nupdate (ha_id a) (set_sn p (ha_sn a)) nps
                               | None => nps
                               end
                     | _ => nps
                     end
                 | _, _ => nps
                 end, o, @None nres)) in (fst (fst (fst r)), snd (fst r)) = ble_callback c s md).
  { destruct (ble_callback c s md) as [s' o]. reflexivity. }
  destruct md as [[|t rest]|]; try exact Plain.
  destruct t as [|t]; try exact Plain.
  do 5 (try (destruct t as [t|t|]; try exact Plain)).
  exfalso. eapply H. reflexivity.
Qed.

(* a notification never touches waiters or discoveries *)
Lemma notification_leaves_tables c guard s nps opens rest :
  fst (fst (fst (ble_callback_full c guard s nps opens (Some (17 :: rest))))) = s.
Proof.
  unfold ble_callback_full. destruct (notif_parse (Some (17 :: rest))) as [n|e| |]; try reflexivity.
  destruct (alookup (hn_id n) nps) as [p|]; [|reflexivity].
  destruct (notif_handle guard p opens). reflexivity.
Qed.

(* ------------------------------------------------------------------ the code as found raises *)
Definition db1 : list (N * vfmt) := [(11, FU16); (13, FU64); (16, FString)].
Definition p1 : npair := {| np_key := true; np_sn := Some 5; np_db := Some db1 |}.
Definition pt_of (gsn iid : N) (v : bytes) : bytes := le_enc 2 gsn ++ le_enc 2 iid ++ v.

Lemma unrepaired_unknown_iid : snd (notif_handle false p1 [(6, pt_of 6 99 [1; 2; 0; 0; 0; 0; 0; 0])]) = NRaisedOut.
Proof. vm_compute. reflexivity. Qed.
Lemma unrepaired_short_value : snd (notif_handle false p1 [(6, pt_of 6 13 [1; 2])]) = NRaisedOut.
Proof. vm_compute. reflexivity. Qed.
Lemma unrepaired_bad_utf8 : snd (notif_handle false p1 [(6, pt_of 6 16 [255; 254; 0; 0; 0; 0; 0; 0])]) = NRaisedOut.
Proof. vm_compute. reflexivity. Qed.
Lemma unrepaired_no_accessory :
  snd (notif_handle false {| np_key := true; np_sn := Some 5; np_db := None |} [(6, pt_of 6 11 [1; 2; 0; 0; 0; 0; 0; 0])]) = NRaisedOut.
Proof. vm_compute. reflexivity. Qed.

Lemma repaired_same_inputs :
  notif_handle true p1 [(6, pt_of 6 99 [1; 2; 0; 0; 0; 0; 0; 0])] = (set_sn p1 6, NPoll 99)
  /\ notif_handle true p1 [(6, pt_of 6 13 [1; 2])] = (set_sn p1 6, NDropped 13)
  /\ notif_handle true p1 [(6, pt_of 6 16 [255; 254; 0; 0; 0; 0; 0; 0])] = (set_sn p1 6, NDropped 16)
  /\ notif_handle true p1 [(6, pt_of 6 11 [1; 2; 0; 0; 0; 0; 0; 0])] = (set_sn p1 6, NDelivered 11)
  /\ notif_handle true p1 [(5, pt_of 5 11 [1; 2; 0; 0; 0; 0; 0; 0])] = (p1, NStale)
  /\ notif_handle true p1 [(104, pt_of 104 11 [1; 2; 0; 0; 0; 0; 0; 0])] = (set_sn p1 104, NDelivered 11)
  /\ notif_handle true p1 [(105, pt_of 105 11 [1; 2; 0; 0; 0; 0; 0; 0])] = (p1, NUndecryptable)
  /\ notif_handle true p1 [(7, pt_of 6 11 [1; 2; 0; 0; 0; 0; 0; 0])] = (p1, NMismatch).
Proof. vm_compute. repeat split. Qed.

(* the complete callback on a real byte string: type 0x11, advertising identifier aa:bb:cc:00:00:01 *)
Definition idn : id := fmt_id [170; 187; 204; 0; 0; 1].
Definition mdn : bytes := render_notif 54 [170; 187; 204; 0; 0; 1] [9; 9; 9; 9; 9; 9; 9; 9; 9; 9; 9; 9; 1; 2; 3; 4].
Lemma full_callback_demo :
  snd (fst (ble_callback_full ble_cfg false st0 [(idn, p1)] [(6, pt_of 6 99 [1; 2; 0; 0; 0; 0; 0; 0])] (Some mdn))) = [Raised]
  /\ ble_callback_full ble_cfg true st0 [(idn, p1)] [(6, pt_of 6 99 [1; 2; 0; 0; 0; 0; 0; 0])] (Some mdn)
     = (st0, [(idn, set_sn p1 6)], [], Some (NPoll 99)).
Proof. vm_compute. split; reflexivity. Qed.

(* utf8_ok on the boundary cases of the RFC 3629 table *)
Lemma utf8_examples :
  utf8_ok [] = true /\ utf8_ok [65; 127] = true /\ utf8_ok [128] = false /\ utf8_ok [193; 128] = false
  /\ utf8_ok [194; 128] = true /\ utf8_ok [224; 159; 128] = false /\ utf8_ok [224; 160; 128] = true
  /\ utf8_ok [237; 160; 128] = false /\ utf8_ok [237; 159; 191] = true /\ utf8_ok [240; 143; 128; 128] = false
  /\ utf8_ok [244; 143; 191; 191] = true /\ utf8_ok [244; 144; 128; 128] = false /\ utf8_ok [245; 128; 128; 128] = false
  /\ utf8_ok [226; 130] = false /\ utf8_ok [226; 130; 172; 65] = true.
Proof. vm_compute. repeat split. Qed.
