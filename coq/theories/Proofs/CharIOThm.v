(* C13 - the final forms restated by Props/C13.v *)
From Coq Require Import List NArith ZArith Arith Bool Lia ZifyN ZifyNat ZifyBool.
From AHK Require Import Lib.Res Model.CharIO Proofs.CharIO.
Import ListNotations.

Lemma entry_rendering_thm :
  (forall v, render None v = mk_rres None None v) /\
  (forall v, render (Some 0%Z) v = mk_rres None None v) /\
  (forall s v, s <> 0%Z -> render (Some s) v = mk_rres (Some s) (Some (read_descr s)) v) /\
  (forall s, read_descr s = if Z.eqb (to_status_code s) (-1) then DUnknownWith s else DCode (to_status_code s)).
Proof.
  split; [exact render_value|]. split; [exact render_zero|]. split; [exact render_status|]. reflexivity.
Qed.

Lemma status_normalisation_thm :
  (forall s, to_status_code (- s) = to_status_code s) /\
  (forall s, In (to_status_code s) hap_defined) /\
  (forall c, In c hap_defined -> to_status_code c = c) /\
  (forall s, to_status_code s = 0%Z <-> s = 0%Z) /\
  (forall s, In (- Z.abs s)%Z hap_defined \/ to_status_code s = (-1)%Z).
Proof.
  split; [exact to_status_code_sign|]. split; [exact to_status_code_defined|].
  split; [exact to_status_code_idem_defined|]. split; [exact to_status_code_zero|].
  intros s. unfold to_status_code. destruct (existsb (Z.eqb (- Z.abs s)) hap_defined) eqn:E.
  - left. apply existsb_exists in E. destruct E as [x [Hin Hx]]. apply Z.eqb_eq in Hx. subst. exact Hin.
  - right. reflexivity.
Qed.

Lemma ip_get_faithful_thm : forall req g es k, In k req ->
    lookup k (ip_get req g es) =
    match last_entry es k with
    | Some (st, v) => Some (render st v)
    | None => match g with
              | Some s => if Z.eqb s 0 then None else Some (glob_res s)
              | None => None
              end
    end.
Proof. intros. unfold ip_get. apply read_faithful_lem. assumption. Qed.

(* ------------------------------------------------------------------ IP write *)
Lemma ip_write_total_thm : forall rd reqs es,
    forallb has_status es = true -> exists rs lu, ip_put rd reqs (W207 es) = Ok (rs, lu).
Proof. intros rd reqs es H. apply ip_put_total_lem; [discriminate|exact H]. Qed.

Lemma ip_write_crash_thm : forall rd reqs es,
    forallb has_status es = false -> ip_put rd reqs (W207 es) = Crash.
Proof. intros. unfold ip_put, ip_put_gen. apply ip_loop_crash. assumption. Qed.

Lemma ip_write_204_thm : forall rd reqs,
    exists lu, ip_put rd reqs W204 = Ok ([], lu) /\
               forall k, lookup k lu = if rd k then last_req reqs k else None.
Proof.
  intros. eexists. split; [reflexivity|]. intros k. apply listener_init_lookup.
Qed.

(* ------------------------------------------------------------------ CoAP *)
Lemma coap_read_faithful_thm : forall ids rs,
    (length rs <= length ids ->
     exists out, coap_read ids rs = Ok out /\
       forall k, lookup k out =
                 match last_paired ids rs k with
                 | Some (PBytes v) => Some (mk_rres None None (Some v))
                 | Some (PStatus n) => Some (mk_rres (Some (- Z.of_N n)%Z) (Some (DPdu n)) None)
                 | None => None
                 end) /\
    (length ids < length rs -> coap_read ids rs = Crash).
Proof.
  intros ids rs. split.
  - intros H. destruct (coap_read_loop_ok rs ids [] H) as [out [E Hl]]. exists out. split; [exact E|].
    intros k. rewrite Hl. destruct (last_paired ids rs k) as [[v|n]|]; reflexivity.
  - apply coap_read_loop_crash.
Qed.

Lemma coap_never_hides_thm : forall rd reqs rs out lu k n,
    coap_put rd reqs rs = Ok (out, lu) ->
    In (k, PStatus n) (combine (map fst reqs) rs) ->
    lookup k lu = None /\
    exists n', lookup k out = Some ((- Z.of_N n')%Z, DPdu n') /\ In (k, PStatus n') (combine (map fst reqs) rs).
Proof.
  intros rd reqs rs out lu k n H Hin.
  destruct (coap_put_lem rd reqs rs) as [L1 L2].
  destruct (le_lt_dec (length rs) (length reqs)) as [Hl|Hl].
  - destruct (L1 Hl) as [out' [lu' [E [Ho Hu]]]]. rewrite E in H. inversion H. subst out' lu'.
    assert (A : any_paired_status (map fst reqs) rs k = true).
    { apply any_paired_status_spec. exists n. exact Hin. }
    split.
    + rewrite Hu, A, andb_false_r. reflexivity.
    + rewrite Ho. rewrite <- last_paired_status_any in A.
      destruct (last_paired_status (map fst reqs) rs k) as [n'|] eqn:E2; [|discriminate].
      exists n'. split; [reflexivity|]. apply last_paired_status_in. exact E2.
  - rewrite (L2 Hl) in H. discriminate.
Qed.

Lemma coap_no_false_rejection_thm : forall rd reqs rs out lu k s d,
    coap_put rd reqs rs = Ok (out, lu) ->
    lookup k out = Some (s, d) ->
    exists n, s = (- Z.of_N n)%Z /\ d = DPdu n /\ In (k, PStatus n) (combine (map fst reqs) rs).
Proof.
  intros rd reqs rs out lu k s d H Hl.
  destruct (coap_put_lem rd reqs rs) as [L1 L2].
  destruct (le_lt_dec (length rs) (length reqs)) as [Hlen|Hlen].
  - destruct (L1 Hlen) as [out' [lu' [E [Ho Hu]]]]. rewrite E in H. inversion H. subst out' lu'.
    rewrite Ho in Hl. destruct (last_paired_status (map fst reqs) rs k) as [n|] eqn:E2; [|discriminate].
    inversion Hl. exists n. repeat split. apply last_paired_status_in. exact E2.
  - rewrite (L2 Hlen) in H. discriminate.
Qed.

Lemma coap_listeners_thm : forall rd reqs rs,
    (length rs <= length reqs ->
     exists out lu, coap_put rd reqs rs = Ok (out, lu) /\
       forall k, lookup k lu = if rd k && negb (any_paired_status (map fst reqs) rs k)
                               then last_req reqs k else None) /\
    (length reqs < length rs -> coap_put rd reqs rs = Crash).
Proof.
  intros rd reqs rs. destruct (coap_put_lem rd reqs rs) as [L1 L2]. split; [|exact L2].
  intros H. destruct (L1 H) as [out [lu [E [_ Hu]]]]. exists out, lu. split; assumption.
Qed.

(* ------------------------------------------------------------------ BLE *)
Lemma ble_never_hides_thm : forall perm rd items,
    (forall it s, In it items -> ble_reject_status perm it = Some s ->
        exists s', snd (ble_put perm rd items) = Err (PduStatusError s') /\ s' <> 0%N /\
                   exists it', In it' items /\ ble_reject_status perm it' = Some s') /\
    (forall rs it, snd (ble_put perm rd items) = Ok rs -> In it items -> ble_sent perm it = false ->
        lookup (b_key it) rs = Some (hap_read_only, DCode hap_read_only)).
Proof.
  intros perm rd items. destruct (ble_put_lem perm rd items) as [_ H]. split.
  - intros it s Hin Hr. destruct (ble_first_reject perm items) as [s'|] eqn:E.
    + destruct H as [H1 H2]. exists s'. split; [exact H1|]. split; [exact H2|].
      destruct (ble_first_reject_some _ _ _ E) as [pre [x [post [-> [_ R]]]]].
      exists x. split; [apply in_or_app; right; left; reflexivity|exact R].
    + exfalso. rewrite ble_first_reject_none in E. rewrite (E _ Hin) in Hr. discriminate.
  - intros rs it Hok Hin Hs. destruct (ble_first_reject perm items) as [s'|].
    + destruct H as [H1 _]. rewrite H1 in Hok. discriminate.
    + destruct H as [rs' [H1 H2]]. rewrite H1 in Hok. inversion Hok. subst rs'.
      rewrite H2. replace (existsb _ items) with true; [reflexivity|].
      symmetry. apply existsb_exists. exists it. split; [exact Hin|].
      rewrite cid_eqb_refl, Hs. reflexivity.
Qed.

Lemma ble_no_false_rejection_thm : forall perm rd items,
    ((forall it, In it items -> ble_reject_status perm it = None) ->
       exists rs, snd (ble_put perm rd items) = Ok rs) /\
    (forall rs k s d, snd (ble_put perm rd items) = Ok rs -> lookup k rs = Some (s, d) ->
       s = hap_read_only /\ d = DCode hap_read_only /\
       exists it, In it items /\ b_key it = k /\ ble_sent perm it = false).
Proof.
  intros perm rd items. destruct (ble_put_lem perm rd items) as [_ H]. split.
  - intros Hall. apply ble_first_reject_none in Hall. rewrite Hall in H.
    destruct H as [rs [H1 _]]. exists rs. exact H1.
  - intros rs k s d Hok Hl. destruct (ble_first_reject perm items) as [s'|].
    + destruct H as [H1 _]. rewrite H1 in Hok. discriminate.
    + destruct H as [rs' [H1 H2]]. rewrite H1 in Hok. inversion Hok. subst rs'.
      rewrite H2 in Hl. destruct (existsb _ items) eqn:E; [|discriminate].
      inversion Hl. split; [reflexivity|]. split; [reflexivity|].
      apply existsb_exists in E. destruct E as [it [Hin He]].
      apply andb_true_iff in He. destruct He as [E1 E2]. apply cid_eqb_eq in E1.
      exists it. split; [exact Hin|]. split; [auto|]. destruct (ble_sent perm it); [discriminate|reflexivity].
Qed.

Lemma ble_prefix_spec : forall perm items,
    exists post, items = ble_prefix perm items ++ post /\
                 (forall it, In it (ble_prefix perm items) -> ble_reject_status perm it = None) /\
                 match post with
                 | [] => ble_first_reject perm items = None
                 | it :: _ => exists s, ble_reject_status perm it = Some s /\ ble_first_reject perm items = Some s
                 end.
Proof.
  intros perm. induction items as [|it t IH]; cbn [ble_prefix ble_first_reject].
  - exists []. split; [reflexivity|]. split; [intros it []|reflexivity].
  - destruct (ble_reject_status perm it) eqn:E.
    + exists (it :: t). split; [reflexivity|]. split; [intros x []|]. exists n. split; [exact E|reflexivity].
    + destruct IH as [post [H1 [H2 H3]]]. exists post. split; [cbn [app]; rewrite <- H1; reflexivity|].
      split; [|exact H3]. intros x [<-|Hx]; [exact E|apply H2; exact Hx].
Qed.

Lemma ble_listeners_thm : forall perm rd items,
    fst (ble_put perm rd items) = ble_notified perm rd (ble_prefix perm items) /\
    (forall rs, snd (ble_put perm rd items) = Ok rs ->
        fst (ble_put perm rd items) = ble_notified perm rd items) /\
    (forall k v, In (k, v) (ble_notified perm rd items) <->
        exists it, In it items /\ b_key it = k /\ b_val it = v /\
                   ble_sent perm it = true /\ rd (snd k) = true).
Proof.
  intros perm rd items. destruct (ble_put_lem perm rd items) as [H0 H]. split; [exact H0|]. split.
  - intros rs Hok. rewrite H0. destruct (ble_first_reject perm items) as [s'|] eqn:E.
    + destruct H as [H1 _]. rewrite H1 in Hok. discriminate.
    + rewrite (ble_prefix_all _ _ E). reflexivity.
  - intros k v. unfold ble_notified. rewrite in_map_iff. split.
    + intros [it [Heq Hin]]. apply filter_In in Hin. destruct Hin as [Hin Hf].
      apply andb_true_iff in Hf. destruct Hf as [F1 F2]. inversion Heq. subst.
      exists it. repeat split; auto.
    + intros [it [Hin [<- [<- [F1 F2]]]]]. exists it. split; [reflexivity|].
      apply filter_In. split; [exact Hin|]. rewrite F1, F2. reflexivity.
Qed.
