(* C05 - a whole session: inbound decoding does not depend on what is sent (or on
   flow-control callbacks) between the reads; outbound frames are the sequential sends
   with the counter threaded, whatever is received in between. *)
From Coq Require Import List NArith ZArith Arith Bool Lia.
From AHK Require Import Lib.Res Lib.ByteStr Model.Frame Proofs.FrameBase Proofs.FrameFeed.
Import ListNotations.

Section SessProofs.
  Variable F : nat.
  Variable T : nat.
  Variable opn : bytes -> bytes -> bytes -> option bytes.

  Lemma send_ok_inv ctr p r : send F ctr p = Ok r -> r = send_sym F ctr p.
  Proof.
    unfold send. destruct (_ || _); [|discriminate]. intros H. now injection H as <-.
  Qed.

  (* a step that is not a read and not a cancellation leaves the receiver alone *)
  Lemma sess_step_rx s o :
    no_cancel o = true -> (forall d, o <> ORecv d) -> s_rx (fst (sess_step F T opn s o)) = s_rx s.
  Proof.
    destruct o as [p|d| | |]; intros Hc Hr; try discriminate; try reflexivity.
    - cbn [sess_step]. destruct (send F (s_tx s) p) as [r| | |]; try reflexivity.
      destruct (s_rx s); reflexivity.
    - exfalso. now apply (Hr d).
  Qed.

  Lemma sess_inbound : forall ops s,
      forallb no_cancel ops = true ->
      s_rx (fst (sess_run F T opn s ops)) = fst (feed_all T opn (s_rx s) (recvs ops)) /\
      delivered (snd (sess_run F T opn s ops)) = snd (feed_all T opn (s_rx s) (recvs ops)).
  Proof.
    induction ops as [|o r IH]; intros s H; [split; reflexivity|].
    cbn [forallb] in H. apply andb_true_iff in H. destruct H as [Ho Hr].
    cbn [sess_run].
    destruct o as [p|d| | |]; try discriminate.
    - (* send *)
      pose proof (sess_step_rx s (OSend p) eq_refl ltac:(intros d; discriminate)) as E.
      destruct (sess_step F T opn s (OSend p)) as [s1 e] eqn:Es. cbn [fst] in E.
      assert (Ee : delivered [e] = []).
      { cbn [sess_step] in Es. destruct (send F (s_tx s) p) as [x| | |];
          try (injection Es as <- <-; reflexivity).
        destruct (s_rx s); injection Es as <- <-; reflexivity. }
      specialize (IH s1 Hr). destruct (sess_run F T opn s1 r) as [s2 es].
      cbn [fst snd recvs] in *. rewrite <- E. destruct IH as [I1 I2]. split; [exact I1|].
      destruct e; cbn [delivered] in *; try exact I2.
      rewrite app_nil_r in Ee. subst ps. exact I2.
    - (* recv *)
      cbn [sess_step recvs feed_all].
      destruct (feed T opn (s_rx s) d) as [r1 o1].
      specialize (IH (mkSess r1 (s_tx s)) Hr).
      destruct (sess_run F T opn (mkSess r1 (s_tx s)) r) as [s2 es].
      cbn [fst snd s_rx delivered] in *. destruct IH as [I1 I2].
      destruct (feed_all T opn r1 (recvs r)) as [s3 o3]. cbn [fst snd] in *.
      split; [exact I1|now rewrite I2].
    - (* pause *)
      cbn [sess_step]. specialize (IH s Hr). destruct (sess_run F T opn s r) as [s2 es].
      cbn [fst snd recvs delivered] in *. exact IH.
    - (* resume *)
      cbn [sess_step]. specialize (IH s Hr). destruct (sess_run F T opn s r) as [s2 es].
      cbn [fst snd recvs delivered] in *. exact IH.
  Qed.

  Lemma sess_outbound : forall ops s,
      forallb accepted_ev (snd (sess_run F T opn s ops)) = true ->
      wrote (snd (sess_run F T opn s ops)) = fst (sends_seq F (s_tx s) (sent ops)) /\
      s_tx (fst (sess_run F T opn s ops)) = snd (sends_seq F (s_tx s) (sent ops)).
  Proof.
    induction ops as [|o r IH]; intros s H; [split; reflexivity|].
    cbn [sess_run] in *.
    destruct o as [p|d| | |].
    - cbn [sess_step] in *.
      destruct (send F (s_tx s) p) as [x| | |] eqn:Es.
      + apply send_ok_inv in Es. subst x.
        destruct (s_rx s) as [b c|].
        * specialize (IH (mkSess (Live b c) (snd (send_sym F (s_tx s) p)))).
          destruct (sess_run F T opn _ r) as [s2 es]. cbn [fst snd forallb accepted_ev andb] in *.
          destruct (IH H) as [I1 I2]. cbn [s_tx sent sends_seq wrote fst snd] in *.
          split; [now rewrite I1|exact I2].
        * destruct (sess_run F T opn _ r) as [s2 es]. cbn in H. discriminate.
      + destruct (sess_run F T opn _ r) as [s2 es]. cbn in H. discriminate.
      + destruct (sess_run F T opn _ r) as [s2 es]. cbn in H. discriminate.
      + destruct (sess_run F T opn _ r) as [s2 es]. cbn in H. discriminate.
    - cbn [sess_step] in *. destruct (feed T opn (s_rx s) d) as [r1 o1].
      specialize (IH (mkSess r1 (s_tx s))).
      destruct (sess_run F T opn _ r) as [s2 es]. cbn [fst snd forallb accepted_ev andb] in *.
      exact (IH H).
    - cbn [sess_step] in *. specialize (IH (mkSess Dead (s_tx s))).
      destruct (sess_run F T opn _ r) as [s2 es]. cbn [fst snd forallb accepted_ev andb] in *.
      exact (IH H).
    - cbn [sess_step] in *. specialize (IH s).
      destruct (sess_run F T opn s r) as [s2 es]. cbn [fst snd forallb accepted_ev andb] in *.
      exact (IH H).
    - cbn [sess_step] in *. specialize (IH s).
      destruct (sess_run F T opn s r) as [s2 es]. cbn [fst snd forallb accepted_ev andb] in *.
      exact (IH H).
  Qed.

  (* after a cancellation: nothing is delivered and nothing is written any more *)
  Lemma sess_dead_quiet : forall ops tx,
      delivered (snd (sess_run F T opn (mkSess Dead tx) ops)) = [] /\
      wrote (snd (sess_run F T opn (mkSess Dead tx) ops)) = [].
  Proof.
    induction ops as [|o r IH]; intros tx; [split; reflexivity|].
    cbn [sess_run]. destruct o as [p|d| | |]; cbn [sess_step s_rx s_tx feed].
    - destruct (send F tx p) as [x| | |].
      + specialize (IH (snd x)). destruct (sess_run F T opn (mkSess Dead (snd x)) r) as [s2 es]. exact IH.
      + specialize (IH (N.max tx ctr_limit)).
        destruct (sess_run F T opn (mkSess Dead (N.max tx ctr_limit)) r) as [s2 es]. exact IH.
      + specialize (IH (N.max tx ctr_limit)).
        destruct (sess_run F T opn (mkSess Dead (N.max tx ctr_limit)) r) as [s2 es]. exact IH.
      + specialize (IH (N.max tx ctr_limit)).
        destruct (sess_run F T opn (mkSess Dead (N.max tx ctr_limit)) r) as [s2 es]. exact IH.
    - specialize (IH tx). destruct (sess_run F T opn (mkSess Dead tx) r) as [s2 es]. exact IH.
    - specialize (IH tx). destruct (sess_run F T opn (mkSess Dead tx) r) as [s2 es]. exact IH.
    - specialize (IH tx). destruct (sess_run F T opn (mkSess Dead tx) r) as [s2 es]. exact IH.
    - specialize (IH tx). destruct (sess_run F T opn (mkSess Dead tx) r) as [s2 es]. exact IH.
  Qed.
End SessProofs.
