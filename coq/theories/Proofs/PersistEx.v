(* C20 - concrete witnesses on the toy codec: refutation of the in-place save,
   refutation of rename-without-fsync under data loss, non-vacuity of the safety theorem *)
From Coq Require Import List NArith Arith Bool Lia.
From AHK Require Import Lib.Res Lib.ByteStr Model.Persist Proofs.Persist.
Import ListNotations.

Definition tload := load ToyCodec.data ToyCodec.parse.

(* a disk with one durable file, name 1 -> inode 0, holding the encoding of D0 *)
Definition D0 : bytes := [1; 2; 3]%N.
Definition D1 : bytes := [4; 5; 6; 7; 8]%N.
Definition st0 : fs :=
  mkfs (upd (fun _ => None) 1%N (Some 0%N))
       (upd (fun _ => []) 0%N (ToyCodec.print D0))
       (upd (fun _ => 0) 0%N 4)
       (fun _ => None) 1%N.
(* the new contents, handed to the OS in three pieces *)
Definition cs1 : list bytes := [[5]; [4; 5; 6]; [7; 8]]%N.

Lemma st0_quiescent : quiescent st0 1%N 0%N.
Proof.
  unfold quiescent, st0. cbn [names content synced handles fresh].
  split; [reflexivity|]. split.
  { intros a. unfold upd. destruct (N.eqb a 1) eqn:E; [intros _; now apply N.eqb_eq|discriminate]. }
  split; [lia|]. split; [intros h; discriminate|reflexivity].
Qed.
Lemma st0_content : content st0 0%N = ToyCodec.print D0.
Proof. reflexivity. Qed.
Lemma cs1_new : concat cs1 = ToyCodec.print D1.
Proof. reflexivity. Qed.
Lemma st0_sync_ok : sync_ok st0.
Proof. intros i. unfold st0. cbn [synced content]. unfold upd. destruct (N.eqb i 0); cbn; lia. Qed.

Definition loaded_eqb (a b : loaded bytes) : bool :=
  match a, b with
  | Missing, Missing | Broken, Broken => true
  | Loaded x, Loaded y => bytes_eqb x y
  | _, _ => false
  end.

(* the in-place save: the crash right after the truncation leaves an unloadable file *)
Lemma inplace_refuted :
  exists st f h cs j D D' n,
    quiescent st f j /\ content st j = ToyCodec.print D /\ concat cs = ToyCodec.print D' /\
    tload (crash_after n (save_inplace h f cs) st) f = Broken.
Proof.
  exists st0, 1%N, 7%N, cs1, 0%N, D0, D1, 1.
  split; [exact st0_quiescent|]. split; [reflexivity|]. split; [reflexivity|]. vm_compute. reflexivity.
Qed.

(* ... and so do all crash points inside the write: only n = 0 and n >= 4 are safe *)
Lemma inplace_all_points :
  map (fun n => tload (crash_after n (save_inplace 7%N 1%N cs1) st0) 1%N) (seq 0 6)
  = [Loaded D0; Broken; Broken; Broken; Loaded D1; Loaded D1].
Proof. vm_compute. reflexivity. Qed.

(* rename without fsync: if un-synced data is lost in the crash, the renamed file is empty *)
Lemma nofsync_refuted :
  exists st f t h cs j D D' n st',
    t <> f /\ quiescent st f j /\ content st j = ToyCodec.print D /\ concat cs = ToyCodec.print D' /\
    crash_view (crash_after n (save_atomic_nofsync h t f cs) st) st' /\
    tload st' f = Broken.
Proof.
  exists st0, 1%N, 2%N, 7%N, cs1, 0%N, D0, D1, 6, (view_lossy (crash_after 6 (save_atomic_nofsync 7%N 2%N 1%N cs1) st0)).
  split; [discriminate|]. split; [exact st0_quiescent|]. split; [reflexivity|]. split; [reflexivity|].
  split; [|vm_compute; reflexivity].
  apply crash_view_lossy. apply sync_ok_run. exact st0_sync_ok.
Qed.

(* non-vacuity: the hypotheses of the safety theorem hold for st0/cs1, and every crash
   point, in both extreme views, loads D0 or D1 *)
Lemma atomic_nonvacuous :
  (2 <> 1)%N /\ quiescent st0 1%N 0%N /\ content st0 0%N = ToyCodec.print D0 /\ concat cs1 = ToyCodec.print D1 /\
  forallb (fun n =>
     let s := crash_after n (save_atomic 7%N 2%N 1%N cs1) st0 in
     let ok r := loaded_eqb r (Loaded D0) || loaded_eqb r (Loaded D1) in
     ok (tload (view_all s) 1%N) && ok (tload (view_lossy s) 1%N)) (seq 0 9) = true /\
  map (fun n => tload (crash_after n (save_atomic 7%N 2%N 1%N cs1) st0) 1%N) (seq 0 9)
  = [Loaded D0; Loaded D0; Loaded D0; Loaded D0; Loaded D0; Loaded D0; Loaded D0; Loaded D1; Loaded D1].
Proof.
  split; [discriminate|]. split; [exact st0_quiescent|]. split; [reflexivity|]. split; [reflexivity|].
  split; vm_compute; reflexivity.
Qed.

(* plain corollary of the safety theorem without views *)
Section Plain.
  Variable data : Type.
  Variable print : data -> bytes.
  Variable parse : bytes -> option data.
  Hypothesis parse_print : forall d, parse (print d) = Some d.

  Lemma atomic_crash_safe_plain : forall st f t h cs j D D' n,
      sync_ok st -> t <> f -> quiescent st f j -> content st j = print D -> concat cs = print D' ->
      let st' := crash_after n (save_atomic h t f cs) st in
      load data parse st' f = Loaded D \/ load data parse st' f = Loaded D'.
  Proof.
    intros st f t h cs j D D' n Hs Htf Hq Ho Hn. cbn zeta.
    eapply (atomic_crash_safe data print parse parse_print); eauto.
    apply crash_view_refl. apply sync_ok_run. exact Hs.
  Qed.
End Plain.

(* saving the EMPTY data over an existing file (all pairings removed): the temp+rename procedure
   replaces the file; interrupted it shows the old data, completed it shows the empty data *)
Lemma atomic_to_empty :
  concat [[0%N]] = ToyCodec.print [] /\
  map (fun n => tload (crash_after n (save_atomic 7%N 2%N 1%N [[0%N]]) st0) 1%N) (seq 0 7)
  = [Loaded D0; Loaded D0; Loaded D0; Loaded D0; Loaded D0; Loaded []; Loaded []].
Proof. split; vm_compute; reflexivity. Qed.
