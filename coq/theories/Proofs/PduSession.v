(* C17 - whole BLE sessions: the closed loop controller <-> spec accessory of Model/Pdu.v *)
From Coq Require Import List NArith ZArith Arith Bool Lia ZifyN ZifyNat ZifyBool.
From AHK Require Import Lib.Res Lib.ByteStr Model.Pdu Proofs.PduBle.
Import ListNotations.
Ltac Zify.zify_post_hook ::= Z.to_euclidean_division_equations.

(* a conformant answer: defined status, continuation flag on every continuation, no empty
   continuation, body below the 16-bit limit *)
Definition ans_ok (a : bans) : Prop :=
  let '(c, st, p0, conts) := a in
  (st <= 6)%N /\ Forall flag_set conts /\ Forall (fun cp => snd cp <> []) conts
  /\ (N.of_nat (length (p0 ++ concat (map snd conts))) < 65536)%N.

Definition breq_ok (r : breq) : Prop :=
  let '(fs, op, tid, iid, data) := r in
  8 <= fs /\ (op < 256)%N /\ (tid < 256)%N /\ (iid < 65536)%N /\ (N.of_nat (length data) < 65536)%N.

Definition breq_core (r : breq) : N * N * N * bytes :=
  let '(fs, op, tid, iid, data) := r in (op, tid, iid, data).

Lemma acc_response_train c tid st p0 conts : acc_response c tid st p0 conts = resp_train c tid st p0 conts.
Proof. reflexivity. Qed.

Section Loop.
  Variables sealW sealR : N -> bytes -> bytes.
  Variables openW openR : N -> bytes -> option bytes.
  Hypothesis HW : forall n m, openW n (sealW n m) = Some m.
  Hypothesis HR : forall n m, openR n (sealR n m) = Some m.
  Variable resp : responder.
  Hypothesis Hresp : forall (op t i : N) (b : bytes), (N.of_nat (length b) < 65536)%N -> ans_ok (resp (op, t, i, b)).

  (* refinement: the concrete loop (fragmentation, sealing, counters, reassembly on both
     sides) computes exactly "ask the responder about each request, in order", and both ends
     finish with equal counters *)
  Lemma ble_loop_spec : forall reqs e d,
    Forall breq_ok reqs ->
    exists e' d',
      ble_loop sealW openR sealR openW resp (e, d) (e, d) reqs
      = Ok (map (fun r => ans_outcome (resp (breq_core r))) reqs, (e', d'), (e', d')).
  Proof.
    induction reqs as [|rq reqs IH]; intros e d Hall.
    - exists e, d. reflexivity.
    - apply Forall_cons_iff in Hall. destruct Hall as [Hrq Hall].
      destruct rq as [[[[fs op] tid] iid] data].
      cbv beta iota zeta delta [breq_ok] in Hrq. destruct Hrq as [Hfs [H1 [H2 [H3 Hl]]]].
      cbn [ble_loop map breq_core fst snd].
      destruct (ble_write_ok sealW openW HW fs op tid iid data e Hfs H1 H2 H3 Hl) as [ws [frs [E [Ho [Ha _]]]]].
      rewrite E. cbn [rbind fst snd].
      unfold acc_handle. cbn [fst snd]. rewrite Ho, Ha.
      destruct (resp (op, tid, iid, data)) as [[[c st] p0] conts] eqn:Er.
      pose proof (Hresp op tid iid data Hl) as Hok. rewrite Er in Hok.
      cbv beta iota zeta delta [ans_ok] in Hok. destruct Hok as [Hs [Hf [Hne Ht]]].
      rewrite acc_response_train.
      rewrite (read_exact_fragmentation sealR openR HR c tid st p0 conts d Hs Hf Hne Ht).
      cbn [rbind].
      rewrite seal_seq_length. unfold resp_train at 1. cbn [length]. rewrite map_length.
      destruct (IH (e + N.of_nat (length ws))%N (d + N.of_nat (S (length conts)))%N Hall) as [e' [d' E2]].
      rewrite E2. cbn [rbind ans_outcome]. exists e', d'. reflexivity.
  Qed.

  (* a response carrying another transaction id (the answer to an earlier request, a
     reused or corrupted tid) is never attributed to this request *)
  Lemma read_stale c t' st p0 conts tid d :
    t' <> tid ->
    read_pdu openR d tid (seal_seq sealR d (acc_response c t' st p0 conts)) = Err ValueError.
  Proof.
    intros H. unfold acc_response, resp_first. cbn [seal_seq].
    apply (read_reject_first sealR openR HR). exact H.
  Qed.

End Loop.

(* ---------------------------------------------------------------- the demo accessory is conformant *)
Lemma concat_map_snd_tag (l : list bytes) : concat (map snd (map (fun c => (128%N, c)) l)) = concat l.
Proof. rewrite map_map. cbn [snd]. rewrite map_id. reflexivity. Qed.

Lemma demo_responder_ok : forall (op t i : N) (b : bytes),
  (N.of_nat (length b) < 65536)%N -> ans_ok (demo_responder (op, t, i, b)).
Proof.
  intros op t i b Hl. unfold demo_responder. cbv beta iota zeta delta [ans_ok].
  set (F := S (N.to_nat (t mod 7))).
  assert (HF : 0 < F) by (unfold F; lia).
  split; [lia|]. split; [|split].
  - apply Forall_map. apply Forall_forall. intros c _. unfold flag_set. cbn [fst]. discriminate.
  - apply Forall_map. cbn [snd].
    eapply Forall_impl; [|apply (chunks_sizes F _ HF)]. cbn. intros c Hc E. subst c. cbn in Hc. lia.
  - rewrite concat_map_snd_tag, chunks_concat by exact HF.
    rewrite firstn_skipn, rev_length. exact Hl.
Qed.

Lemma demo_outcome op t i b :
  ans_outcome (demo_responder (op, t, i, b)) = (((op + i + t) mod 7)%N, rev b).
Proof.
  unfold demo_responder, ans_outcome.
  rewrite concat_map_snd_tag, chunks_concat by lia. rewrite firstn_skipn. reflexivity.
Qed.

(* statement shapes for Props/C17.v *)
Lemma ble_session_attribution_l : forall sealW sealR openW openR,
  (forall n m, openW n (sealW n m) = Some m) -> (forall n m, openR n (sealR n m) = Some m) ->
  forall resp : responder,
  (forall (op t i : N) (b : bytes), (N.of_nat (length b) < 65536)%N -> ans_ok (resp (op, t, i, b))) ->
  forall reqs e d, Forall breq_ok reqs ->
  exists e' d',
    ble_loop sealW openR sealR openW resp (e, d) (e, d) reqs
    = Ok (map (fun r => ans_outcome (resp (breq_core r))) reqs, (e', d'), (e', d')).
Proof. intros sealW sealR openW openR HW HR resp Hresp. exact (ble_loop_spec sealW sealR openW openR HW HR resp Hresp). Qed.

Lemma ble_stale_l : forall (sealR : N -> bytes -> bytes) (openR : N -> bytes -> option bytes),
  (forall n m, openR n (sealR n m) = Some m) ->
  forall c t' st p0 conts tid d, t' <> tid ->
  read_pdu openR d tid (seal_seq sealR d (acc_response c t' st p0 conts)) = Err ValueError.
Proof. intros sealR openR HR. exact (read_stale sealR openR HR). Qed.

Lemma ble_undefined_status_l : forall (sealR : N -> bytes -> bytes) (openR : N -> bytes -> option bytes),
  (forall n m, openR n (sealR n m) = Some m) ->
  forall c t st tail rest tid d, (6 < st)%N ->
  read_pdu openR d tid (sealR d (c :: t :: st :: tail) :: rest) = Err ValueError.
Proof.
  intros sealR openR HR c t st tail rest tid d H. cbn [read_pdu]. unfold open_frag. rewrite HR. cbn [rbind ble_decode].
  destruct (N.leb_spec st 6); [lia|]. reflexivity.
Qed.
