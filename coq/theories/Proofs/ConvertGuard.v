(* C14: what the two guards of the repaired code mean, in exact rationals. *)
From Coq Require Import List NArith ZArith Bool Lia ZifyN ZifyBool QArith Qabs Qpower Qminmax Lqa.
From AHK Require Import Lib.Res Model.Convert Proofs.ConvertInt Proofs.ConvertDec Proofs.ConvertDiv
  Proofs.ConvertQ Proofs.ConvertFrac Proofs.ConvertRange Proofs.ConvertBound.
Local Open Scope Q_scope.

Lemma dval_dabs : forall d, dval (dabs d) == Qabs (dval d).
Proof.
  intro d. assert (H := dval_sign d). assert (P := dval_abs_nonneg d). rewrite H.
  destruct (dneg d); unfold sgz.
  - change (inject_Z (-1)) with (- (1)). rewrite Qabs_neg by lra. ring.
  - change (inject_Z 1) with 1. rewrite Qabs_pos by lra. ring.
Qed.

(* float(Decimal) is finite  <->  |x| < 2^1024 - 2^970 *)
Lemma float_finite_Q : forall d,
  float_finite d = true <-> Qabs (dval d) < inject_Z (2 ^ 1024 - 2 ^ 970).
Proof.
  intro d. unfold float_finite. rewrite dcmp_eq, dcompare_Q.
  change (mkDec false (dcoef d) (dexp d)) with (dabs d).
  assert (EL : dval float_limit == inject_Z (2 ^ 1024 - 2 ^ 970)).
  { unfold dval, float_limit, scoef. cbn [dneg dcoef dexp]. unfold p10. rewrite Qpower_0_r, Qmult_1_r.
    apply inject_Z_injective. rewrite N2Z.inj_sub by (apply N.pow_le_mono_r; lia).
    rewrite !N2Z.inj_pow. reflexivity. }
  rewrite (Qcompare_comp _ _ (dval_dabs d) _ _ EL).
  destruct (Qcompare_spec (Qabs (dval d)) (inject_Z (2 ^ 1024 - 2 ^ 970))) as [E|L|G].
  - split; [discriminate|]. intro H. rewrite E in H. exfalso. exact (Qlt_irrefl _ H).
  - split; [intros _; exact L|reflexivity].
  - split; [discriminate|]. intro H. exfalso. exact (Qlt_irrefl _ (Qlt_trans _ _ _ H G)).
Qed.

Lemma p10_mono : forall a b, (a <= b)%Z -> p10 a <= p10 b.
Proof. intros a b H. unfold p10. apply Qpower_le_compat_l; [exact H|]. unfold ten. discriminate. Qed.

(* `val and val.adjusted() > 308`  <->  |x| >= 10^309 *)
Lemma too_big_Q : forall d, too_big d = true <-> inject_Z (10 ^ 309) <= Qabs (dval d).
Proof.
  intro d. unfold too_big. rewrite <- dval_dabs.
  assert (E309 : inject_Z (10 ^ 309) == p10 309) by (apply p10_Z; lia). rewrite E309.
  assert (Ev : dval (dabs d) == inject_Z (Z.of_N (dcoef d)) * p10 (dexp d)).
  { unfold dval, dabs, scoef. cbn [dneg dcoef dexp]. reflexivity. }
  rewrite Ev.
  destruct (dcoef d =? 0)%N eqn:Z0.
  - cbn [negb andb]. assert (Hc : dcoef d = 0%N) by lia. rewrite Hc. change (Z.of_N 0) with 0%Z. split; [discriminate|].
    intro H. exfalso. assert (P := ConvertQ.p10_pos 309). setoid_replace (inject_Z 0 * p10 (dexp d)) with 0 in H by ring.
    set (x := p10 309) in *. clearbody x. lra.
  - cbn [negb]. rewrite andb_true_l.
    assert (Hc : dcoef d <> 0%N) by lia.
    destruct (ndigits_specZ _ Hc) as [Hn1 [Hlo Hhi]]. unfold adjusted.
    set (n := Z.of_N (ndigits (dcoef d))) in *.
    assert (Pe := ConvertQ.p10_pos (dexp d)).
    assert (Qlo : p10 (n - 1) <= inject_Z (Z.of_N (dcoef d))) by (rewrite <- p10_Z by lia; rewrite <- Zle_Qle; exact Hlo).
    assert (Qhi : inject_Z (Z.of_N (dcoef d)) < p10 n) by (rewrite <- p10_Z by lia; rewrite <- Zlt_Qlt; exact Hhi).
    destruct (308 <? dexp d + n - 1)%Z eqn:E1.
    + split; [intros _|reflexivity].
      apply Qle_trans with (y := p10 (n - 1) * p10 (dexp d)).
      * rewrite <- ConvertQ.p10_add. apply p10_mono. lia.
      * apply Qmult_le_compat_r; [exact Qlo|apply Qlt_le_weak; exact Pe].
    + split; [discriminate|]. intro H. exfalso.
      assert (L : inject_Z (Z.of_N (dcoef d)) * p10 (dexp d) < p10 n * p10 (dexp d)).
      { apply Qmult_lt_compat_r; assumption. }
      rewrite <- ConvertQ.p10_add in L. assert (M := p10_mono (n + dexp d) 309 ltac:(lia)).
      set (x := p10 309) in *. set (y := p10 (n + dexp d)) in *. set (w := inject_Z (Z.of_N (dcoef d)) * p10 (dexp d)) in *. clearbody x y w. lra.
Qed.

(* decimal.Overflow in the six-digit context, restated: some ideally rounded intermediate
   result has an adjusted exponent above Emax = 999999 *)
Lemma overflow6_lemma : forall d,
  dfixb ctx6 d = None <-> dcoef d <> 0%N /\ (emax < adjusted (dfix ctx6 d))%Z.
Proof. intro d. apply dfixb_overflow. apply ctx6_p. Qed.

(* the six-digit theorem for the model of the code: the ideal result, behind the two guards *)
Lemma float_six_digits_model : forall omin omax s str v, dcoef s <> 0%N ->
  normal_run FFloat omin omax (Some s) v ->
  let C := clampQ (option_map dval omin) (option_map dval omax) (dval v) in
  let O := offQ omin in
  exists res d q m,
    check_convert FFloat omin omax (Some s) str (RFin v) =
      (if too_big (clamp omin omax v) then Err FormatError
       else if float_finite res then Ok (VDec res) else Err FormatError) /\
    rnd6 (C - O) d /\ rnd6 (d / dval s) q /\ rnd6 (inject_Z (rhaQ q) * dval s) m /\ rnd6 (O + m) (dval res).
Proof.
  intros omin omax s str v Hs HN C O.
  destruct (float_six_digits_lemma omin omax s str v Hs) as [res [d [q [m [H0 H]]]]].
  exists res, d, q, m. split; [|exact H].
  rewrite (refine_lemma FFloat omin omax (Some s) str v ltac:(discriminate) HN). rewrite H0. reflexivity.
Qed.

Lemma shortcuts_lemma : forall m a b c k omin omax,
  dcmp a b = dcompare a b /\ to_integral_f m a = to_integral m a /\ dec_to_Z_f a = dec_to_Z a /\
  round_drop_f m c k = round_drop m c k /\ clamp_f omin omax a = clamp omin omax a /\
  is_integral_f m a = is_integral m a.
Proof.
  intros. repeat split; [apply dcmp_eq|apply to_integral_f_eq|apply dec_to_Z_f_eq|apply round_drop_f_eq|apply clamp_f_eq|apply is_integral_f_eq].
Qed.
