(* C09 - shape of the rendered request, and the strict grammar accepts exactly it *)
From Coq Require Import List NArith ZArith Arith Bool Lia ZifyN ZifyNat ZifyBool.
From Coq Require Import String Ascii.
From AHK Require Import Lib.Res Lib.ByteStr Model.Request Proofs.RequestLib.
Import ListNotations.
Local Open Scope N_scope.

(* ------------------------------------------------------------------ shape *)
Definition header_block (hs : list (bytes * bytes)) : bytes :=
  List.concat (map (fun h => fst h ++ lit ": " ++ snd h ++ CRLF) hs).

Lemma render_shape_gen method target hs body host :
  render method target hs body host =
  upper method ++ [SP] ++ target ++ lit " HTTP/1.1" ++ CRLF
  ++ host_header host ++ CRLF
  ++ header_block hs
  ++ CRLF ++ body.
Proof.
  unfold render. cbn [List.app].
  rewrite join_cons_ne by (destruct hs; discriminate).
  rewrite join_cons_ne by (destruct hs; discriminate).
  rewrite join_lines_end.
  assert (H : List.concat (map (fun h => hdr_line h ++ CRLF) hs) = header_block hs).
  { unfold header_block, hdr_line. induction hs as [|h hs IH]; [reflexivity|].
    cbn [map List.concat]. rewrite IH. now rewrite <- !app_assoc. }
  rewrite H. rewrite <- !app_assoc. cbn [List.app]. rewrite <- !app_assoc. reflexivity.
Qed.

Lemma upper_meth m : upper (meth_name m) = meth_name m.
Proof. destruct m; reflexivity. Qed.

Definition body_block (b : option (ctype * bytes)) : bytes :=
  match b with
  | None => []
  | Some (ct, body) =>
      lit "Content-Length: " ++ ndec (N.of_nat (List.length body)) ++ CRLF
      ++ lit "Content-Type: " ++ ct_value ct ++ CRLF
  end.
Definition body_of (b : option (ctype * bytes)) : bytes :=
  match b with None => [] | Some (_, body) => body end.

Lemma lit_cl : lit "Content-Length" ++ lit ": " = lit "Content-Length: ". Proof. reflexivity. Qed.
Lemma lit_ct : lit "Content-Type" ++ lit ": " = lit "Content-Type: ". Proof. reflexivity. Qed.

Lemma render_req_shape r :
  render_req r =
  meth_name (r_meth r) ++ [SP] ++ r_target r ++ lit " HTTP/1.1" ++ CRLF
  ++ host_header (r_host r) ++ CRLF
  ++ body_block (r_body r)
  ++ CRLF ++ body_of (r_body r).
Proof.
  unfold render_req. destruct (r_body r) as [[ct b]|].
  - rewrite render_shape_gen, upper_meth. unfold header_block, body_headers, body_block, body_of.
    cbn [map List.concat fst snd]. rewrite app_nil_r.
    rewrite <- !app_assoc.
    rewrite (app_assoc (lit "Content-Length") (lit ": ")), lit_cl.
    rewrite (app_assoc (lit "Content-Type") (lit ": ")), lit_ct.
    reflexivity.
  - rewrite render_shape_gen, upper_meth. reflexivity.
Qed.

Lemma conn_get_req host target : conn_get host target = render_req (mkReq GET target host None).
Proof. reflexivity. Qed.
Lemma conn_put_req host target body ct :
  conn_put host target body ct = render_req (mkReq PUT target host (Some (ct, body))).
Proof. reflexivity. Qed.
Lemma conn_post_req host target body ct :
  conn_post host target body ct = render_req (mkReq POST target host (Some (ct, body))).
Proof. reflexivity. Qed.

(* ------------------------------------------------------------------ parse (render r) = Some r *)
Lemma meth_not_sp m : forallb not_sp (meth_name m) = true.
Proof. destruct m; reflexivity. Qed.
Lemma meth_no_crlf m : no_crlf (meth_name m) = true.
Proof. destruct m; reflexivity. Qed.
Lemma parse_meth_name m : parse_meth (meth_name m) = Some m.
Proof. destruct m; reflexivity. Qed.
Lemma lit_http : lit " HTTP/1.1" = 32 :: lit "HTTP/1.1".
Proof. reflexivity. Qed.

Lemma target_not_sp c : target_char c = true -> not_sp c = true.
Proof. unfold target_char, not_sp. lia. Qed.
Lemma target_line c : target_char c = true -> line_char c = true.
Proof. unfold target_char, line_char. lia. Qed.
Lemma host_line c : host_char c = true -> line_char c = true.
Proof. unfold host_char, line_char. lia. Qed.

Lemma parse_reqline_render m t :
  t <> [] -> forallb target_char t = true ->
  parse_reqline (meth_name m ++ [SP] ++ t ++ lit " HTTP/1.1") = Some (m, t).
Proof.
  intros Ht Hc. unfold parse_reqline.
  rewrite span_app; [|apply meth_not_sp|reflexivity].
  rewrite parse_meth_name. cbn [List.app].
  rewrite span_app; [|eapply forallb_impl; [apply target_not_sp|exact Hc]|reflexivity].
  rewrite beq_refl. destruct t; [congruence|reflexivity].
Qed.

Lemma reqline_no_crlf m t :
  forallb target_char t = true -> no_crlf (meth_name m ++ [SP] ++ t ++ lit " HTTP/1.1") = true.
Proof.
  intros Hc. rewrite !no_crlf_app, meth_no_crlf.
  assert (no_crlf t = true) as -> by (eapply forallb_impl; [apply target_line|exact Hc]).
  reflexivity.
Qed.

Lemma lit_host_br : lit "Host: [" = lit "Host: " ++ [91]. Proof. reflexivity. Qed.

Lemma wf_host_cons h : wf_host h = true -> exists c m, h = c :: m /\ host_char c = true /\ forallb host_char h = true.
Proof.
  unfold wf_host. intros H. apply andb_true_iff in H. destruct H as [H1 H2].
  destruct h as [|c m]; [discriminate|]. exists c, m. split; [reflexivity|]. split; [|exact H2].
  cbn in H2. now apply andb_true_iff in H2.
Qed.

Lemma parse_hostline_render h : wf_host h = true -> parse_hostline (host_header h) = Some h.
Proof.
  intros W. unfold parse_hostline, host_header. destruct (mem_N 58 h) eqn:Ec.
  - rewrite lit_host_br, <- app_assoc, strip_prefix_app. cbn [List.app].
    rewrite N.eqb_refl. change (lit "]") with [93]. rewrite rev_unit, rev_involutive.
    rewrite N.eqb_refl, W, Ec. reflexivity.
  - rewrite strip_prefix_app. destruct (wf_host_cons _ W) as (c & m & -> & Hc & _).
    assert (c =? 91 = false) as -> by (unfold host_char in Hc; lia).
    rewrite W, Ec. reflexivity.
Qed.

Lemma host_header_no_crlf h : wf_host h = true -> no_crlf (host_header h) = true.
Proof.
  intros W. destruct (wf_host_cons _ W) as (c & m & _ & _ & Hall).
  assert (no_crlf h = true) as Hh by (eapply forallb_impl; [apply host_line|exact Hall]).
  unfold host_header. destruct (mem_N 58 h); rewrite !no_crlf_app, Hh; reflexivity.
Qed.

Lemma parse_ct_value ct : parse_ct (ct_value ct) = Some ct.
Proof. destruct ct; reflexivity. Qed.
Lemma ct_no_crlf ct : no_crlf (ct_value ct) = true.
Proof. destruct ct; reflexivity. Qed.

Lemma parse_render_lemma r : wf_req r = true -> parse_req (render_req r) = Some r.
Proof.
  destruct r as [m t h b]. unfold wf_req. cbn [r_meth r_target r_host r_body].
  intros W. apply andb_true_iff in W. destruct W as [W Wb].
  apply andb_true_iff in W. destruct W as [W Wh].
  apply andb_true_iff in W. destruct W as [Wt Wc].
  assert (t <> []) as Hne by (destruct t; [discriminate|congruence]).
  rewrite render_req_shape. cbn [r_meth r_target r_host r_body].
  unfold parse_req.
  replace (meth_name m ++ [SP] ++ t ++ lit " HTTP/1.1" ++ CRLF ++ host_header h ++ CRLF ++ body_block b ++ CRLF ++ body_of b)
    with ((meth_name m ++ [SP] ++ t ++ lit " HTTP/1.1") ++ CRLF ++ (host_header h ++ CRLF ++ body_block b ++ CRLF ++ body_of b))
    by (now rewrite <- !app_assoc).
  rewrite take_line_app by (now apply reqline_no_crlf). cbn [obind].
  rewrite parse_reqline_render by assumption. cbn [obind].
  rewrite take_line_app by (now apply host_header_no_crlf). cbn [obind].
  rewrite parse_hostline_render by assumption. cbn [obind].
  destruct b as [[ct body]|]; unfold body_block, body_of.
  - rewrite <- !app_assoc.
    replace (lit "Content-Length: " ++ ndec (N.of_nat (List.length body)) ++ CRLF ++ lit "Content-Type: " ++ ct_value ct ++ CRLF ++ CRLF ++ body)
      with ((lit "Content-Length: " ++ ndec (N.of_nat (List.length body))) ++ CRLF ++ ((lit "Content-Type: " ++ ct_value ct) ++ CRLF ++ ([] ++ CRLF ++ body)))
      by (now rewrite <- !app_assoc).
    rewrite take_line_app by (rewrite no_crlf_app, ndec_no_crlf; reflexivity). cbn [obind].
    rewrite nil_b_app_l by reflexivity.
    rewrite strip_prefix_app. cbn [obind]. rewrite parse_dec_ndec. cbn [obind].
    rewrite take_line_app by (rewrite no_crlf_app, ct_no_crlf; reflexivity). cbn [obind].
    rewrite strip_prefix_app. cbn [obind]. rewrite parse_ct_value. cbn [obind].
    rewrite take_line_app by reflexivity. cbn [obind nil_b].
    rewrite N.eqb_refl, Wb. reflexivity.
  - cbn [List.app]. change (CRLF ++ []) with ([] ++ CRLF ++ @nil N).
    rewrite take_line_app by reflexivity. cbn [obind nil_b]. rewrite Wb. reflexivity.
Qed.

(* ------------------------------------------------------------------ parse bs = Some r -> bs = render r *)
Lemma parse_meth_inv w m : parse_meth w = Some m -> w = meth_name m.
Proof.
  unfold parse_meth.
  destruct (beq w (lit "GET")) eqn:E1; [intros H; inversion H; now apply beq_true|].
  destruct (beq w (lit "PUT")) eqn:E2; [intros H; inversion H; now apply beq_true|].
  destruct (beq w (lit "POST")) eqn:E3; [intros H; inversion H; now apply beq_true|discriminate].
Qed.

Lemma parse_ct_inv v ct : parse_ct v = Some ct -> v = ct_value ct.
Proof.
  unfold parse_ct.
  destruct (beq v (ct_value CtJson)) eqn:E1; [intros H; inversion H; now apply beq_true|].
  destruct (beq v (ct_value CtTlv)) eqn:E2; [intros H; inversion H; now apply beq_true|discriminate].
Qed.

Lemma parse_reqline_inv l m t :
  parse_reqline l = Some (m, t) ->
  l = meth_name m ++ [SP] ++ t ++ lit " HTTP/1.1" /\ nil_b t = false /\ forallb not_sp t = true.
Proof.
  unfold parse_reqline. destruct (span not_sp l) as [w r1] eqn:E1.
  destruct (parse_meth w) as [m'|] eqn:Em; [|discriminate].
  destruct r1 as [|c r2]; [discriminate|].
  destruct (span not_sp r2) as [t' r3] eqn:E2.
  destruct (negb (nil_b t') && beq r3 (lit " HTTP/1.1")) eqn:Ec; [|discriminate].
  intros H; inversion H; subst. apply andb_true_iff in Ec. destruct Ec as [Hn Hb].
  apply beq_true in Hb. apply parse_meth_inv in Em. subst.
  pose proof (span_stops _ _ _ _ E1) as Hs. cbn in Hs. unfold not_sp in Hs.
  assert (c = SP) as -> by (unfold SP; lia).
  apply span_eq in E1. pose proof (span_all _ _ _ _ E2) as Ha. apply span_eq in E2. subst.
  split; [reflexivity|]. split; [now apply negb_true_iff in Hn|exact Ha].
Qed.

Lemma parse_hostline_inv l h : parse_hostline l = Some h -> l = host_header h /\ wf_host h = true.
Proof.
  unfold parse_hostline. destruct (strip_prefix (lit "Host: ") l) as [hv|] eqn:E; [|discriminate].
  apply strip_prefix_inv in E. subst l.
  destruct hv as [|c m]; [discriminate|].
  destruct (c =? 91) eqn:Ec.
  - destruct (List.rev m) as [|d ri] eqn:Er; [discriminate|].
    destruct ((d =? 93) && wf_host (List.rev ri) && mem_N 58 (List.rev ri)) eqn:Ek; [|discriminate].
    intros H; inversion H; subst.
    apply andb_true_iff in Ek. destruct Ek as [Ek Hm]. apply andb_true_iff in Ek. destruct Ek as [Hd Hw].
    apply N.eqb_eq in Ec, Hd. subst.
    split; [|exact Hw]. unfold host_header. rewrite Hm.
    rewrite lit_host_br, <- app_assoc. cbn [List.app]. do 2 f_equal.
    change (lit "]") with [93]. rewrite <- (rev_involutive m), Er. reflexivity.
  - destruct (wf_host (c :: m) && negb (mem_N 58 (c :: m))) eqn:Ek; [|discriminate].
    intros H; inversion H; subst.
    apply andb_true_iff in Ek. destruct Ek as [Hw Hm]. apply negb_true_iff in Hm.
    split; [|exact Hw]. unfold host_header. now rewrite Hm.
Qed.

Lemma no_crlf_target t : no_crlf t = true -> forallb not_sp t = true -> forallb target_char t = true.
Proof.
  induction t as [|c t IH]; [reflexivity|]. cbn. intros H1 H2.
  apply andb_true_iff in H1. destruct H1 as [Hc H1]. apply andb_true_iff in H2. destruct H2 as [Hs H2].
  rewrite IH by assumption. unfold line_char in Hc. unfold not_sp in Hs. unfold target_char.
  rewrite andb_true_r. lia.
Qed.

Lemma parse_exact_lemma bs r : parse_req bs = Some r -> bs = render_req r /\ wf_req r = true.
Proof.
  unfold parse_req.
  destruct (take_line bs) as [[l1 r1]|] eqn:T1; [|discriminate]. cbn [obind].
  destruct (parse_reqline l1) as [[m t]|] eqn:P1; [|discriminate]. cbn [obind].
  destruct (take_line r1) as [[l2 r2]|] eqn:T2; [|discriminate]. cbn [obind].
  destruct (parse_hostline l2) as [h|] eqn:P2; [|discriminate]. cbn [obind].
  destruct (take_line r2) as [[l3 r3]|] eqn:T3; [|discriminate]. cbn [obind].
  apply take_line_inv in T1. destruct T1 as [-> N1].
  apply take_line_inv in T2. destruct T2 as [-> N2].
  apply take_line_inv in T3. destruct T3 as [-> N3].
  apply parse_reqline_inv in P1. destruct P1 as (-> & Hne & Hsp).
  apply parse_hostline_inv in P2. destruct P2 as (-> & Wh).
  assert (forallb target_char t = true) as Ht.
  { apply no_crlf_target; [|exact Hsp]. rewrite !no_crlf_app in N1.
    apply andb_true_iff in N1. destruct N1 as [_ N1]. apply andb_true_iff in N1. destruct N1 as [_ N1].
    apply andb_true_iff in N1. now destruct N1. }
  destruct (nil_b l3) eqn:E3.
  - destruct l3; [|discriminate].
    destruct (nil_b r3 && is_get m) eqn:Ek; [|discriminate].
    intros H; inversion H; subst. apply andb_true_iff in Ek. destruct Ek as [Hr Hg].
    destruct r3; [|discriminate].
    split.
    + rewrite render_req_shape. cbn [r_meth r_target r_host r_body body_block body_of].
      rewrite <- !app_assoc. reflexivity.
    + unfold wf_req. cbn [r_meth r_target r_host r_body]. rewrite Hne, Ht, Wh, Hg. reflexivity.
  - destruct (strip_prefix (lit "Content-Length: ") l3) as [ds|] eqn:S3; [|discriminate]. cbn [obind].
    destruct (parse_dec ds) as [n|] eqn:D3; [|discriminate]. cbn [obind].
    destruct (take_line r3) as [[l4 r4]|] eqn:T4; [|discriminate]. cbn [obind].
    destruct (strip_prefix (lit "Content-Type: ") l4) as [cv|] eqn:S4; [|discriminate]. cbn [obind].
    destruct (parse_ct cv) as [ct|] eqn:C4; [|discriminate]. cbn [obind].
    destruct (take_line r4) as [[l5 body]|] eqn:T5; [|discriminate]. cbn [obind].
    destruct (nil_b l5 && (N.of_nat (List.length body) =? n) && negb (is_get m)) eqn:Ek; [|discriminate].
    intros H; inversion H; subst.
    apply andb_true_iff in Ek. destruct Ek as [Ek Hg]. apply andb_true_iff in Ek. destruct Ek as [H5 Hn].
    apply N.eqb_eq in Hn. destruct l5; [|discriminate].
    apply take_line_inv in T4. destruct T4 as [-> _].
    apply take_line_inv in T5. destruct T5 as [-> _].
    apply strip_prefix_inv in S3. apply strip_prefix_inv in S4. subst.
    apply parse_dec_inv in D3. apply parse_ct_inv in C4. subst.
    split.
    + rewrite render_req_shape. cbn [r_meth r_target r_host r_body body_block body_of].
      rewrite <- !app_assoc. reflexivity.
    + unfold wf_req. cbn [r_meth r_target r_host r_body]. rewrite Hne, Ht, Wh, Hg. reflexivity.
Qed.

(* two well-formed requests with the same bytes are the same request *)
Lemma render_req_inj r1 r2 : wf_req r1 = true -> wf_req r2 = true -> render_req r1 = render_req r2 -> r1 = r2.
Proof.
  intros W1 W2 E. apply parse_render_lemma in W1. apply parse_render_lemma in W2.
  rewrite E in W1. rewrite W1 in W2. now inversion W2.
Qed.
