(* Model of aiohomekit/model/characteristics/characteristic.py :
     strtobool, check_convert_value  (the path Service.build_update takes)
   together with the part of Python's `decimal` module that code uses.

   Decimal numbers are (sign, coefficient, exponent) triples exactly as
   Decimal.as_tuple() shows them; value = (-1)^sign * coefficient * 10^exponent.
   The arithmetic follows the General Decimal Arithmetic rules CPython
   implements (Lib/_pydecimal.py is the line-by-line reference; _decimal gives
   identical results): every operation computes the exact result with the
   "ideal" exponent and then rounds the coefficient to the context precision
   (`_fix`).  Only finite numbers occur (NaN/Infinity are rejected on input by
   the repaired code).

   The file has two layers.
   * "ideal" arithmetic with unbounded exponents (dfix, dadd, dsub, dmul, ddiv,
     dcompare, to_integral, dec_to_Z, snap_dec, ideal_convert): the General
     Decimal Arithmetic rules without an exponent range.  The accuracy theorems
     are proved about this layer.
   * the executable model of the code (second half: dfixb, daddb, ..., dcmp,
     check_convert): Python's default context has Emax = 999999, Emin = -999999;
     _fix raises decimal.Overflow (a trap) when the rounded result's adjusted
     exponent exceeds Emax, rounds subnormal results at Etiny = Emin - prec + 1
     (Underflow / Subnormal / Clamped are not trapped) and clamps the exponent of
     a zero into [Etiny, Emax].  check_convert also models the two guards of
     fixes/C14-huge-exponent-format-error.patch (a clamped value with adjusted
     exponent above 308, and a float() result that is not finite, fail with
     FormatError).  This layer never builds a power of ten it does not need, so
     it runs on exponents of any size; Proofs/ConvertBound.v shows it coincides
     with the ideal layer whenever no intermediate result leaves the normal
     exponent range.

   Definitions only; proofs are in Proofs/Convert*.v. *)
From Coq Require Import List NArith ZArith Bool.
From AHK Require Import Lib.Res.
Import ListNotations.

(* ------------------------------------------------------------------ *)
(* decimal numbers                                                      *)
(* ------------------------------------------------------------------ *)

Record dec := mkDec { dneg : bool; dcoef : N; dexp : Z }.

(* ROUND_HALF_UP: the mode check_convert_value sets; ROUND_HALF_EVEN: the
   default context's mode, used by the final to_integral_value() that runs
   outside the localcontext block *)
Inductive rmode := HalfUp | HalfEven.

Record ctx := mkCtx { cprec : N; crnd : rmode }.

Definition pow10 (k : N) : N := (10 ^ k)%N.

(* number of decimal digits; 0 for 0 (Python: len(str(c)) is 1 there, but every
   use below only compares with the precision, and 0 never needs rounding) *)
Fixpoint ndig_aux (fuel : nat) (c : N) : N :=
  match fuel with
  | O => 0%N
  | S f => if (c =? 0)%N then 0%N else N.succ (ndig_aux f (c / 10)%N)
  end.
Definition ndigits (c : N) : N := ndig_aux (S (N.to_nat (N.log2 c))) c.

(* _round_half_up / _round_half_even: q = kept digits, r = dropped digits,
   p = 10^(number of dropped digits) *)
Definition round_up (m : rmode) (q r p : N) : bool :=
  match m with
  | HalfUp => (p <=? 2 * r)%N
  | HalfEven => (p <? 2 * r)%N || ((p =? 2 * r)%N && N.odd q)
  end.

(* drop the k low digits of c, rounding *)
Definition round_drop (m : rmode) (c k : N) : N :=
  let p := pow10 k in
  let q := (c / p)%N in
  let r := (c mod p)%N in
  if round_up m q r p then N.succ q else q.

(* Decimal._fix: round the coefficient to the context precision *)
Definition dfix (cx : ctx) (d : dec) : dec :=
  let n := ndigits (dcoef d) in
  if (n <=? cprec cx)%N then d
  else
    let k := (n - cprec cx)%N in
    let c' := round_drop (crnd cx) (dcoef d) k in
    if (ndigits c' <=? cprec cx)%N
    then mkDec (dneg d) c' (dexp d + Z.of_N k)
    else mkDec (dneg d) (c' / 10)%N (dexp d + Z.of_N k + 1).   (* 999999.5 -> 1.00000E+6 *)

Definition scoef (d : dec) : Z :=
  if dneg d then (- Z.of_N (dcoef d))%Z else Z.of_N (dcoef d).

(* signed coefficient of d when written with exponent e (e <= dexp d) *)
Definition sval (d : dec) (e : Z) : Z := (scoef d * 10 ^ (dexp d - e))%Z.

Definition dneg_of (d : dec) : dec := mkDec (negb (dneg d)) (dcoef d) (dexp d).

(* Decimal.__add__ *)
Definition dadd (cx : ctx) (a b : dec) : dec :=
  let e := Z.min (dexp a) (dexp b) in
  let z := (sval a e + sval b e)%Z in
  let neg := if (z =? 0)%Z then dneg a && dneg b else (z <? 0)%Z in
  dfix cx (mkDec neg (Z.abs_N z) e).

(* Decimal.__sub__ : self + other.copy_negate() *)
Definition dsub (cx : ctx) (a b : dec) : dec := dadd cx a (dneg_of b).

(* Decimal.__mul__ *)
Definition dmul (cx : ctx) (a b : dec) : dec :=
  dfix cx (mkDec (xorb (dneg a) (dneg b)) (dcoef a * dcoef b)%N (dexp a + dexp b)%Z).

(* exact quotient: move towards the ideal exponent while the last digit is 0 *)
Fixpoint strip0 (fuel : nat) (c : N) (e ideal : Z) : N * Z :=
  match fuel with
  | O => (c, e)
  | S f =>
      if (e <? ideal)%Z && (c mod 10 =? 0)%N
      then strip0 f (c / 10)%N (e + 1)%Z ideal
      else (c, e)
  end.

(* Decimal.__truediv__ ; None = DivisionByZero / InvalidOperation trap *)
Definition ddiv (cx : ctx) (a b : dec) : option dec :=
  if (dcoef b =? 0)%N then None
  else
    let sign := xorb (dneg a) (dneg b) in
    let ideal := (dexp a - dexp b)%Z in
    if (dcoef a =? 0)%N then Some (dfix cx (mkDec sign 0 ideal))
    else
      let shift := (Z.of_N (ndigits (dcoef b)) - Z.of_N (ndigits (dcoef a))
                    + Z.of_N (cprec cx) + 1)%Z in
      let e := (ideal - shift)%Z in
      let num := if (0 <=? shift)%Z then (dcoef a * pow10 (Z.to_N shift))%N else dcoef a in
      let den := if (0 <=? shift)%Z then dcoef b else (dcoef b * pow10 (Z.to_N (- shift)))%N in
      let q := (num / den)%N in
      let r := (num mod den)%N in
      let ce := if (r =? 0)%N then strip0 (S (N.to_nat (N.log2 q))) q e ideal
                else (if (q mod 5 =? 0)%N then N.succ q else q, e) in
      Some (dfix cx (mkDec sign (fst ce) (snd ce))).

(* exact comparison (Decimal.__lt__ / __gt__ / __eq__ on finite numbers) *)
Definition dcompare (a b : dec) : comparison :=
  let e := Z.min (dexp a) (dexp b) in
  Z.compare (sval a e) (sval b e).

(* the builtins max(a, b) / min(a, b): the first argument wins a draw *)
Definition py_max (a b : dec) : dec := match dcompare b a with Gt => b | _ => a end.
Definition py_min (a b : dec) : dec := match dcompare b a with Lt => b | _ => a end.

(* Decimal.to_integral_value(rounding = context rounding); not limited by prec *)
Definition to_integral (m : rmode) (d : dec) : dec :=
  if (0 <=? dexp d)%Z then d
  else mkDec (dneg d) (round_drop m (dcoef d) (Z.to_N (- dexp d))) 0.

(* int(Decimal): truncation towards zero *)
Definition dec_to_Z (d : dec) : Z :=
  let m := if (0 <=? dexp d)%Z then (Z.of_N (dcoef d) * 10 ^ dexp d)%Z
           else Z.of_N (dcoef d / pow10 (Z.to_N (- dexp d))) in
  if dneg d then (- m)%Z else m.

(* Decimal(int) *)
Definition dec_of_Z (z : Z) : dec := mkDec (z <? 0)%Z (Z.abs_N z) 0.

(* d == d.to_integral_value() *)
Definition is_integral (m : rmode) (d : dec) : bool :=
  match dcompare d (to_integral m d) with Eq => true | _ => false end.

(* ------------------------------------------------------------------ *)
(* strtobool(str(val))                                                  *)
(* ------------------------------------------------------------------ *)

(* strings are lists of code points.  str.lower() is modelled on A-Z only: the
   only other code points whose lower case contains an ASCII letter are U+212A
   (-> k) and U+0130 (-> i + U+0307), and neither letter occurs in a keyword *)
Definition lower (c : N) : N := if (65 <=? c)%N && (c <=? 90)%N then (c + 32)%N else c.

Fixpoint str_eqb (a b : list N) : bool :=
  match a, b with
  | [], [] => true
  | x :: a', y :: b' => (x =? y)%N && str_eqb a' b'
  | _, _ => false
  end.

Definition str_in (s : list N) (l : list (list N)) : bool := existsb (str_eqb s) l.

(* "y" "yes" "t" "true" "on" "1" *)
Definition truthy : list (list N) :=
  [[121]; [121; 101; 115]; [116]; [116; 114; 117; 101]; [111; 110]; [49]]%N.
(* "n" "no" "f" "false" "off" "0" *)
Definition falsy : list (list N) :=
  [[110]; [110; 111]; [102]; [102; 97; 108; 115; 101]; [111; 102; 102]; [48]]%N.

(* None = ValueError *)
Definition strtobool (s : list N) : option bool :=
  let l := map lower s in
  if str_in l truthy then Some true
  else if str_in l falsy then Some false
  else None.

(* ------------------------------------------------------------------ *)
(* check_convert_value                                                  *)
(* ------------------------------------------------------------------ *)

Inductive fmt := FBool | FUint8 | FUint16 | FUint32 | FUint64 | FInt | FFloat.

Definition is_integer_fmt (f : fmt) : bool :=
  match f with FUint8 | FUint16 | FUint32 | FUint64 | FInt => true | _ => false end.

(* what Decimal(val) makes of the caller's value *)
Inductive reading :=
| RFin (d : dec)     (* a finite decimal (exact: a float is its binary expansion) *)
| RNonFinite         (* NaN / Infinity *)
| RReject.           (* Decimal() raises: InvalidOperation, TypeError, ValueError *)

Inductive cerr : Set := FormatError.

(* int formats hand over a Python int, float hands the decimal to float() *)
Inductive cval := VInt (z : Z) | VDec (d : dec).

Definition ctx6 : ctx := mkCtx 6 HalfUp.

(* nearest multiple of |s| to v - off, ties away from zero, in exact integers
   (the repaired branch for integer formats) *)
Definition snap_int (v off s : Z) : Z :=
  let dist := (v - off)%Z in
  let step := Z.abs s in
  let steps := (Z.abs dist / step)%Z in
  let rest := (Z.abs dist mod step)%Z in
  let steps' := if (step <=? 2 * rest)%Z then (steps + 1)%Z else steps in
  (off + (if (0 <=? dist)%Z then steps' * step else - (steps' * step)))%Z.

(* offset + ((val - offset) / min_step).to_integral_value() * min_step, prec 6 *)
Definition snap_dec (v off s : dec) : res cerr dec :=
  match ddiv ctx6 (dsub ctx6 v off) s with
  | None => Crash
  | Some q => Ok (dadd ctx6 off (dmul ctx6 (to_integral HalfUp q) s))
  end.

Definition dzero : dec := mkDec false 0 0.

Definition ideal_snap (f : fmt) (omin : option dec) (v s : dec) : res cerr dec :=
  let off := match omin with Some m => m | None => dzero end in
  if is_integer_fmt f && is_integral HalfUp v && is_integral HalfUp off && is_integral HalfUp s
  then Ok (dec_of_Z (snap_int (dec_to_Z v) (dec_to_Z off) (dec_to_Z s)))
  else snap_dec v off s.

Definition clamp (omin omax : option dec) (v : dec) : dec :=
  let v1 := match omin with Some m => py_max m v | None => v end in
  match omax with Some M => py_min M v1 | None => v1 end.

Definition ideal_number (f : fmt) (omin omax ostep : option dec) (r : reading)
  : res cerr cval :=
  match r with
  | RReject | RNonFinite => Err FormatError
  | RFin v =>
      let v2 := clamp omin omax v in
      rbind (match ostep with
             | Some s => if (dcoef s =? 0)%N then Ok v2 else ideal_snap f omin v2 s   (* `if char.minStep:` *)
             | None => Ok v2
             end)
            (fun v3 =>
               if is_integer_fmt f then Ok (VInt (dec_to_Z (to_integral HalfEven v3)))
               else Ok (VDec v3))
  end.

(* s = str(val) as code points (only the bool format looks at it),
   r = the decimal reading of val (only the numeric formats look at it) *)
Definition ideal_convert (f : fmt) (omin omax ostep : option dec)
           (s : list N) (r : reading) : res cerr cval :=
  match f with
  | FBool =>
      match strtobool s with
      | Some b => Ok (VInt (if b then 1 else 0))
      | None => Err FormatError
      end
  | _ => ideal_number f omin omax ostep r
  end.

(* ====================================================================== *)
(* The executable model: bounded exponents, guards, no needless powers.    *)
(* ====================================================================== *)

(* Python's default context *)
Definition emax : Z := 999999.
Definition emin : Z := (-999999)%Z.
Definition etiny (cx : ctx) : Z := (emin - Z.of_N (cprec cx) + 1)%Z.
Definition etop (cx : ctx) : Z := (emax - Z.of_N (cprec cx) + 1)%Z.

(* adjusted exponent: exponent of the leading digit (meaningful for c <> 0) *)
Definition adjusted (d : dec) : Z := (dexp d + Z.of_N (ndigits (dcoef d)) - 1)%Z.

(* dropping more digits than there are leaves 0 (no power of ten needed) *)
Definition round_drop_f (m : rmode) (c k : N) : N :=
  if (ndigits c <? k)%N then 0%N else round_drop m c k.

(* Decimal._fix with Emax / Etiny; None = decimal.Overflow is raised *)
Definition dfixb (cx : ctx) (d : dec) : option dec :=
  if (dcoef d =? 0)%N
  then Some (mkDec (dneg d) 0 (Z.min (Z.max (dexp d) (etiny cx)) emax))
  else
    let n := Z.of_N (ndigits (dcoef d)) in
    let exp_min0 := (n + dexp d - Z.of_N (cprec cx))%Z in
    if (etop cx <? exp_min0)%Z then None
    else
      let exp_min := Z.max exp_min0 (etiny cx) in
      if (dexp d <? exp_min)%Z then
        let c' := round_drop_f (crnd cx) (dcoef d) (Z.to_N (exp_min - dexp d)) in
        if (ndigits c' <=? cprec cx)%N then Some (mkDec (dneg d) c' exp_min)
        else if (etop cx <? exp_min + 1)%Z then None
             else Some (mkDec (dneg d) (c' / 10)%N (exp_min + 1))
      else Some d.

(* aligned signed coefficient; a zero needs no power of ten *)
Definition svalz (d : dec) (e : Z) : Z := if (dcoef d =? 0)%N then 0%Z else sval d e.

(* the exact results the operations round *)
Definition dadd_exact (a b : dec) : dec :=
  let e := Z.min (dexp a) (dexp b) in
  let z := (svalz a e + svalz b e)%Z in
  let neg := if (z =? 0)%Z then dneg a && dneg b else (z <? 0)%Z in
  mkDec neg (Z.abs_N z) e.

Definition dmul_exact (a b : dec) : dec :=
  mkDec (xorb (dneg a) (dneg b)) (dcoef a * dcoef b)%N (dexp a + dexp b)%Z.

(* the quotient before _fix (floor quotient with sticky digit, or exact and stripped) *)
Definition ddiv_exact (cx : ctx) (a b : dec) : option dec :=
  if (dcoef b =? 0)%N then None
  else
    let sign := xorb (dneg a) (dneg b) in
    let ideal := (dexp a - dexp b)%Z in
    if (dcoef a =? 0)%N then Some (mkDec sign 0 ideal)
    else
      let shift := (Z.of_N (ndigits (dcoef b)) - Z.of_N (ndigits (dcoef a))
                    + Z.of_N (cprec cx) + 1)%Z in
      let e := (ideal - shift)%Z in
      let num := if (0 <=? shift)%Z then (dcoef a * pow10 (Z.to_N shift))%N else dcoef a in
      let den := if (0 <=? shift)%Z then dcoef b else (dcoef b * pow10 (Z.to_N (- shift)))%N in
      let q := (num / den)%N in
      let r := (num mod den)%N in
      let ce := if (r =? 0)%N then strip0 (S (N.to_nat (N.log2 q))) q e ideal
                else (if (q mod 5 =? 0)%N then N.succ q else q, e) in
      Some (mkDec sign (fst ce) (snd ce)).

(* the context operations; None = an ArithmeticError (Overflow, or division by zero) *)
Definition daddb (cx : ctx) (a b : dec) : option dec := dfixb cx (dadd_exact a b).
Definition dsubb (cx : ctx) (a b : dec) : option dec := daddb cx a (dneg_of b).
Definition dmulb (cx : ctx) (a b : dec) : option dec := dfixb cx (dmul_exact a b).
Definition ddivb (cx : ctx) (a b : dec) : option dec :=
  match ddiv_exact cx a b with Some x => dfixb cx x | None => None end.

(* Decimal._cmp: zeros and signs first, then adjusted exponents, and only for
   equal adjusted exponents the aligned coefficients *)
Definition dcmp (a b : dec) : comparison :=
  if (dcoef a =? 0)%N then
    (if (dcoef b =? 0)%N then Eq else if dneg b then Gt else Lt)
  else if (dcoef b =? 0)%N then (if dneg a then Lt else Gt)
  else if negb (Bool.eqb (dneg a) (dneg b)) then (if dneg a then Lt else Gt)
  else if (adjusted a <? adjusted b)%Z then (if dneg a then Gt else Lt)
  else if (adjusted b <? adjusted a)%Z then (if dneg a then Lt else Gt)
  else dcompare a b.

Definition py_max_f (a b : dec) : dec := match dcmp b a with Gt => b | _ => a end.
Definition py_min_f (a b : dec) : dec := match dcmp b a with Lt => b | _ => a end.

Definition clamp_f (omin omax : option dec) (v : dec) : dec :=
  let v1 := match omin with Some m => py_max_f m v | None => v end in
  match omax with Some M => py_min_f M v1 | None => v1 end.

Definition to_integral_f (m : rmode) (d : dec) : dec :=
  if (0 <=? dexp d)%Z then d
  else mkDec (dneg d) (round_drop_f m (dcoef d) (Z.to_N (- dexp d))) 0.

Definition is_integral_f (m : rmode) (d : dec) : bool :=
  match dcmp d (to_integral_f m d) with Eq => true | _ => false end.

(* int(Decimal); int(Decimal("0E+1000000")) is 0 without a power of ten *)
Definition dec_to_Z_f (d : dec) : Z := if (dcoef d =? 0)%N then 0%Z else dec_to_Z d.

(* `val and val.adjusted() > LARGEST_EXPONENT` *)
Definition too_big (d : dec) : bool := negb (dcoef d =? 0)%N && (308 <? adjusted d)%Z.

(* float(Decimal) is finite iff |d| < 2^1024 - 2^970 (the midpoint between the largest
   double and 2^1024 rounds to even, i.e. to infinity) *)
Definition float_limit : dec := mkDec false (2 ^ 1024 - 2 ^ 970) 0.
Definition float_finite (d : dec) : bool :=
  match dcmp (mkDec false (dcoef d) (dexp d)) float_limit with Lt => true | _ => false end.

(* offset + ((val - offset) / min_step).to_integral_value() * min_step in the
   6-digit context; None = ArithmeticError, which the repaired code turns into FormatError *)
Definition snap_decb (v off s : dec) : option dec :=
  match dsubb ctx6 v off with
  | None => None
  | Some d =>
      match ddivb ctx6 d s with
      | None => None
      | Some q =>
          match dmulb ctx6 (to_integral_f HalfUp q) s with
          | None => None
          | Some m => daddb ctx6 off m
          end
      end
  end.

Definition snap (f : fmt) (omin : option dec) (v s : dec) : res cerr dec :=
  let off := match omin with Some m => m | None => dzero end in
  if is_integer_fmt f && is_integral_f HalfUp v && is_integral_f HalfUp off && is_integral_f HalfUp s
  then Ok (dec_of_Z (snap_int (dec_to_Z_f v) (dec_to_Z_f off) (dec_to_Z_f s)))
  else match snap_decb v off s with Some r => Ok r | None => Err FormatError end.

Definition convert_number (f : fmt) (omin omax ostep : option dec) (r : reading)
  : res cerr cval :=
  match r with
  | RReject | RNonFinite => Err FormatError
  | RFin v =>
      let v2 := clamp_f omin omax v in
      if too_big v2 then Err FormatError
      else
        rbind (match ostep with
               | Some s => if (dcoef s =? 0)%N then Ok v2 else snap f omin v2 s   (* `if char.minStep:` *)
               | None => Ok v2
               end)
              (fun v3 =>
                 if is_integer_fmt f then Ok (VInt (dec_to_Z_f (to_integral_f HalfEven v3)))
                 else if float_finite v3 then Ok (VDec v3) else Err FormatError)
  end.

(* s = str(val) as code points (only the bool format looks at it),
   r = the decimal reading of val (only the numeric formats look at it) *)
Definition check_convert (f : fmt) (omin omax ostep : option dec)
           (s : list N) (r : reading) : res cerr cval :=
  match f with
  | FBool =>
      match strtobool s with
      | Some b => Ok (VInt (if b then 1 else 0))
      | None => Err FormatError
      end
  | _ => convert_number f omin omax ostep r
  end.
