(* C07: the sender's side.  A [wire] message is what an accessory writes: a
   status line, raw header lines, and a body framed by Content-Length, by chunked
   transfer encoding, or absent.  [render] gives its bytes, [wf_wire] is the
   grammar of well-formed messages, [interp] is the message the receiver must
   deliver (kind, version, code, reason, headers as the code keeps them - name
   stripped and Title-Cased, value stripped -, body).  Definitions only. *)
From Coq Require Import List NArith ZArith Arith Bool.
From AHK Require Import Lib.ByteStr Model.Http.
Import ListNotations.

Inductive framing :=
| FNone                                             (* no body (e.g. 204), or Content-Length: 0 *)
| FFixed (b : bytes)                                (* Content-Length: |b|, |b| > 0 *)
| FChunked (cs : list (bytes * bytes)) (last : bytes).
    (* chunks (size line, data) and the size line of the terminating chunk *)

Record wire := mkW {
  w_version : bytes;                (* e.g. HTTP/1.1, EVENT/1.0 *)
  w_codeb : bytes;                  (* the status code as written *)
  w_reason : bytes;
  w_hdrs : list (bytes * bytes);    (* raw name, raw value: the line is name ":" value *)
  w_fr : framing }.

Definition status_line (w : wire) : bytes := w_version w ++ 32%N :: w_codeb w ++ 32%N :: w_reason w.
Definition hline (nv : bytes * bytes) : bytes := fst nv ++ 58%N :: snd nv.
Definition rchunk (c : bytes * bytes) : bytes := fst c ++ 13%N :: 10%N :: snd c ++ [13%N; 10%N].

Definition render_fr (fr : framing) : bytes :=
  match fr with
  | FNone => []
  | FFixed b => b
  | FChunked cs last => concat (map rchunk cs) ++ last ++ [13; 10; 13; 10]%N
  end.

Definition render (w : wire) : bytes :=
  status_line w ++ 13%N :: 10%N ::
  concat (map (fun nv => hline nv ++ [13%N; 10%N]) (w_hdrs w)) ++ 13%N :: 10%N :: render_fr (w_fr w).

(* the header as the code keeps it *)
Definition sem (nv : bytes * bytes) : bytes * bytes :=
  (title (strip ws_s (fst nv)), strip ws_s (snd nv)).

(* effect of one header on (is_chunked, content_length); None = unparsable Content-Length *)
Definition hdr_step (st : bool * Z) (nv : bytes * bytes) : option (bool * Z) :=
  if beq (fst (sem nv)) s_te then Some (fst st || beq (snd (sem nv)) s_chunked, snd st)
  else if beq (fst (sem nv)) s_cl
       then match int10 ws_s (snd (sem nv)) with Some z => Some (fst st, z) | None => None end
       else Some st.

Fixpoint hdr_fold (st : bool * Z) (hs : list (bytes * bytes)) : option (bool * Z) :=
  match hs with
  | [] => Some st
  | nv :: r => match hdr_step st nv with Some st' => hdr_fold st' r | None => None end
  end.

Definition no_crlf (l : bytes) : bool := match find_crlf l with None => true | Some _ => false end.
Definition no_byte (c : N) (l : bytes) : bool := match split1 c l with None => true | Some _ => false end.

Definition wf_hdr (nv : bytes * bytes) : bool :=
  no_byte 58 (fst nv) && no_crlf (hline nv) && ascii (hline nv).

Definition wf_chunk (c : bytes * bytes) : bool :=
  no_crlf (fst c) && negb (nil_b (snd c))
  && match int16 (fst c) with Some z => Z.eqb z (Z.of_nat (length (snd c))) | None => false end.

(* the framing headers agree with the body that follows; a chunked message carries
   no positive Content-Length *)
Definition wf_fr (ck : bool) (cl : Z) (fr : framing) : bool :=
  match fr with
  | FNone => negb ck && (Z.eqb cl (-1) || Z.eqb cl 0)
  | FFixed b => negb ck && negb (nil_b b) && Z.eqb cl (Z.of_nat (length b))
  | FChunked cs last =>
      ck && Z.leb cl 0 && forallb wf_chunk cs && no_crlf last
      && match int16 last with Some z => Z.eqb z 0 | None => false end
  end.

Definition is_some {A} (o : option A) : bool := match o with Some _ => true | None => false end.

Definition wf_wire (w : wire) : bool :=
  no_byte 32 (w_version w) && no_byte 32 (w_codeb w)
  && no_crlf (status_line w) && ascii (status_line w)
  && is_some (int10 ws_b (w_codeb w)) && is_some (kind_of (w_version w))
  && forallb wf_hdr (w_hdrs w)
  && match hdr_fold (false, (-1)%Z) (w_hdrs w) with
     | Some (ck, cl) => wf_fr ck cl (w_fr w)
     | None => false
     end.

Definition body_of (fr : framing) : bytes :=
  match fr with
  | FNone => []
  | FFixed b => b
  | FChunked cs _ => concat (map snd cs)
  end.

Definition interp (w : wire) : msg :=
  mkM (match kind_of (w_version w) with Some k => k | None => KHttp end)
      (w_version w)
      (match int10 ws_b (w_codeb w) with Some z => z | None => 0%Z end)
      (w_reason w)
      (map sem (w_hdrs w))
      (body_of (w_fr w)).
