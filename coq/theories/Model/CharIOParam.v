(* C13 extension (round 8) - renaming of characteristic VALUES (definitions only).

   The property speaks about "the accessory's value" (reads) and "the new value" (what a write
   tells listeners).  The code under Model/CharIO.v never looks INTO a value: it moves it from
   a reply entry / a request item to the result dict / the listener update.  The definitions
   below apply a function [f] to every value position of the inputs and of the outputs; the
   theorems [*_value_parametric] (Props/C13.v) say that every modelled function commutes with
   it.  harness/c13.py relies on this: values of every JSON kind (0, false, null, "", floats,
   strings, lists, dicts) are handed to the implementation, and the model sees an integer code
   for each. *)
From Coq Require Import List NArith ZArith Bool.
From AHK Require Import Lib.Res Model.CharIO.
Import ListNotations.

(* a dict of values *)
Definition dmap {A B} (f : A -> B) (m : dict A) : dict B := map (fun p => (fst p, f (snd p))) m.

(* request items (cid, value) *)
Definition vmap_reqs (f : Z -> Z) (reqs : list (cid * Z)) : list (cid * Z) := dmap f reqs.

(* reply entries: the "value" key of a well-formed entry *)
Definition vmap_entry (f : Z -> Z) (e : entry) : entry :=
  match e with
  | Malformed => Malformed
  | Entry a i st v => Entry a i st (option_map f v)
  end.

(* one value of a read result dict *)
Definition vmap_rres (f : Z -> Z) (r : rres) : rres :=
  mk_rres (rr_status r) (rr_descr r) (option_map f (rr_value r)).

(* CoAP result items: the decoded value of a body *)
Definition vmap_pdures (f : Z -> Z) (r : pdures) : pdures :=
  match r with PBytes v => PBytes (f v) | PStatus n => PStatus n end.

(* BLE request items *)
Definition vmap_bitem (f : Z -> Z) (it : bitem) : bitem :=
  mk_bitem (b_key it) (f (b_val it)) (b_s1 it) (b_s2 it).

(* outcome of a write: the result dict carries no value, the listener update does *)
Definition vmap_wout (f : Z -> Z) (o : dict wres * dict Z) : dict wres * dict Z :=
  (fst o, dmap f (snd o)).

Definition vmap_bout (f : Z -> Z) (o : list (cid * Z) * res cerr (dict wres))
  : list (cid * Z) * res cerr (dict wres) := (dmap f (fst o), snd o).
