(* The CONNECTION LIFE CYCLE around the pair-verify glue (Model/VerifyHist.v): which LINK the installed
   keys were proved on, the entry points that DECIDE whether pair-verify runs, and the state that is
   visible WHILE an attempt is in flight.

     BLE   BlePairing._populate_accessories_and_characteristics: `if not self._encryption_key: _async_pair_verify()`
           after _ensure_connected (new link iff the client is gone / not connected);
           a link ends through the disconnected callback (_async_disconnected), close() / close_after_operation()
           (_close_while_locked - also when client.disconnect() raises): _async_reset_connection_state()
     IP    HomeKitConnection.ensure_connection / _reconnect -> SecureHomeKitConnection._connect_once
           (`is_secure = False` FIRST, TCP connect, pair-verify, secure protocol, is_secure = True,
           owner.connection_made(True)); a link ends through _connection_lost, or _reconnect's _drop_transport
           when the attempt's post-connect set-up failed
     CoAP  CoAPHomeKitConnection.connect: `if self.is_connected: return`, else do_pair_verify

   Definitions only. *)
From Coq Require Import List NArith Arith Bool.
From AHK Require Import Lib.Res Lib.ByteStr Model.Tlv Model.Sym Model.Verify Model.VerifyHist.
Import ListNotations.

(* what an observer sees while an attempt is IN FLIGHT (M1 sent, replies outstanding): nothing has been
   assigned yet, i.e. exactly what a failed attempt would leave behind *)
Definition g_inflight (tr : transport) (st : gst) : gst := g_verify_failed tr st.

(* does the entry point run pair-verify? *)
Definition g_needs_verify (tr : transport) (st : gst) : bool :=
  match tr with
  | TBLE => match gs_keys st with None => true | Some _ => false end    (* `if not self._encryption_key` *)
  | _ => negb (gs_live st)                                              (* `if self.is_connected: return` *)
  end.

Definition g_connect (tr : transport) (pd : pairing) (st : gst) (eph : N) (m2 m4 : list sitem) : gst :=
  if g_needs_verify tr st then g_verify tr pd st eph m2 m4 else st.

Inductive cev :=
| CConnect (eph : N) (m2 m4 : list sitem)   (* the entry point is called; the peer of the current link would answer m2/m4 *)
| CEnd                                      (* the link ends - by whichever path (callback, close, close whose disconnect raises, set-up failure) *)
| CReset.                                   (* CoAP reconnect_soon (elsewhere: as CEnd) *)

(* ghost state: the number of the current link, and the link on which the installed keys were proved *)
Record cst := { c_g : gst; c_link : nat; c_klink : option nat }.

Definition c_init : cst := {| c_g := g_init; c_link := 0; c_klink := None |}.

Definition pv_is_done (r : pv_step) : bool := match r with PDone _ _ => true | _ => false end.

Definition c_step (tr : transport) (pd : pairing) (c : cst) (ev : cev) : cst :=
  match ev with
  | CConnect eph m2 m4 =>
      let st := c_g c in
      if g_needs_verify tr st then
        let rs := match tr with TBLE => gs_resume st | _ => None end in
        {| c_g := g_verify tr pd st eph m2 m4; c_link := c_link c;
           c_klink := if pv_is_done (pv_run tr pd eph rs m2 m4) then Some (c_link c) else c_klink c |}
      else c
  | CEnd => {| c_g := g_drop tr (c_g c); c_link := S (c_link c); c_klink := c_klink c |}
  | CReset => {| c_g := g_reset tr (c_g c); c_link := S (c_link c); c_klink := c_klink c |}
  end.

Definition c_run (tr : transport) (pd : pairing) (h : list cev) : cst := fold_left (c_step tr pd) h c_init.

Fixpoint c_trace (tr : transport) (pd : pairing) (c : cst) (h : list cev) : list cst :=
  match h with
  | [] => []
  | ev :: r => let c' := c_step tr pd c ev in c' :: c_trace tr pd c' r
  end.

(* specification side: a live session (and, where keys do not outlive the link, any installed key)
   was proved on the link that is current NOW *)
Definition c_inv (tr : transport) (pd : pairing) (c : cst) : Prop :=
  (gs_live (c_g c) = true -> c_klink c = Some (c_link c)) /\
  (tr <> TCOAP -> gs_keys (c_g c) <> None -> c_klink c = Some (c_link c)) /\
  g_inv tr pd (c_g c).
