(* C14, histories: a Service holding several long-lived Characteristic
   objects, and the three things that happen to them between and during
   writes:
     Declare k a   the metadata of characteristic k is (re)assigned
                   (char.format / minValue / maxValue / minStep = ...)
     Report k r    the accessory reports a value (Characteristic.set_value /
                   the `value` setter): only `_value` changes
     Prepare p     Service.build_update(p) with a payload of several
                   {characteristic type: value} entries, in dict order
   The model keeps exactly the state the real objects keep (metadata and the
   last reported value per characteristic); the theorems in Proofs/ConvertHist.v
   say that a prepared value depends on nothing but the metadata in force.

   Definitions only. *)
From Coq Require Import List NArith ZArith Bool.
From AHK Require Import Lib.Res Model.Convert.
Import ListNotations.

Record attrs := mkAttrs { a_fmt : fmt; a_min : option dec; a_max : option dec; a_step : option dec }.

(* one Characteristic object: instance id, metadata, last reported value *)
Record chr := mkChr { c_iid : N; c_attrs : attrs; c_reported : option reading }.

(* Service.characteristics_by_type: characteristic type -> object *)
Definition svc := list (N * chr).

Fixpoint lookup (k : N) (s : svc) : option chr :=
  match s with
  | [] => None
  | (k', c) :: r => if (k =? k')%N then Some c else lookup k r
  end.

Fixpoint update (k : N) (f : chr -> chr) (s : svc) : svc :=
  match s with
  | [] => []
  | (k', c) :: r => if (k =? k')%N then (k', f c) :: r else (k', c) :: update k f r
  end.

(* one payload entry: characteristic type, str(value), Decimal reading of value *)
Definition entry := (N * (list N * reading))%type.

(* check_convert_value(value, char) *)
Definition convert_for (a : attrs) (e : list N * reading) : res cerr cval :=
  check_convert (a_fmt a) (a_min a) (a_max a) (a_step a) (fst e) (snd e).

(* Service.build_update: for char_type, value in payload.items(): char = self[char_type];
   value = check_convert_value(value, char); result.append((aid, char.iid, value)).
   self[char_type] on a type the service does not have is a KeyError (Crash). *)
Fixpoint build_update (aid : N) (s : svc) (p : list entry) : res cerr (list (N * N * cval)) :=
  match p with
  | [] => Ok []
  | (k, e) :: rest =>
      match lookup k s with
      | None => Crash
      | Some c =>
          rbind (convert_for (c_attrs c) e)
                (fun v => rbind (build_update aid s rest) (fun l => Ok ((aid, c_iid c, v) :: l)))
      end
  end.

Inductive op :=
| Declare (k : N) (a : attrs)
| Report (k : N) (r : reading)
| Prepare (p : list entry).

Definition out := res cerr (list (N * N * cval)).

(* one step: new state and, for Prepare, what build_update returned / raised *)
Definition step (aid : N) (s : svc) (o : op) : svc * option out :=
  match o with
  | Declare k a => (update k (fun c => mkChr (c_iid c) a (c_reported c)) s, None)
  | Report k r => (update k (fun c => mkChr (c_iid c) (c_attrs c) (Some r)) s, None)
  | Prepare p => (s, Some (build_update aid s p))
  end.

Fixpoint run (aid : N) (s : svc) (h : list op) : list out :=
  match h with
  | [] => []
  | o :: r =>
      let '(s', ou) := step aid s o in
      match ou with
      | Some x => x :: run aid s' r
      | None => run aid s' r
      end
  end.

Fixpoint final (aid : N) (s : svc) (h : list op) : svc :=
  match h with
  | [] => s
  | o :: r => final aid (fst (step aid s o)) r
  end.

(* ---- specification side: only the metadata, no objects, no reports -------- *)

(* characteristic type -> (iid, metadata in force) *)
Definition limits := list (N * (N * attrs)).

Definition limits_of (s : svc) : limits := map (fun kc => (fst kc, (c_iid (snd kc), c_attrs (snd kc)))) s.

Fixpoint lim_lookup (k : N) (l : limits) : option (N * attrs) :=
  match l with
  | [] => None
  | (k', x) :: r => if (k =? k')%N then Some x else lim_lookup k r
  end.

Fixpoint lim_declare (k : N) (a : attrs) (l : limits) : limits :=
  match l with
  | [] => []
  | (k', (i, a')) :: r => if (k =? k')%N then (k', (i, a)) :: r else (k', (i, a')) :: lim_declare k a r
  end.

(* the metadata in force after a history: the Declare operations, nothing else *)
Fixpoint limits_after (l : limits) (h : list op) : limits :=
  match h with
  | [] => l
  | Declare k a :: r => limits_after (lim_declare k a l) r
  | _ :: r => limits_after l r
  end.

(* what a payload must give under given metadata: entry by entry, in order *)
Fixpoint spec_update (aid : N) (l : limits) (p : list entry) : out :=
  match p with
  | [] => Ok []
  | (k, e) :: rest =>
      match lim_lookup k l with
      | None => Crash
      | Some (i, a) =>
          rbind (convert_for a e)
                (fun v => rbind (spec_update aid l rest) (fun r => Ok ((aid, i, v) :: r)))
      end
  end.

Definition is_report (o : op) : bool := match o with Report _ _ => true | _ => false end.
Definition is_prepare (o : op) : bool := match o with Prepare _ => true | _ => false end.

(* ---- the thread's decimal context ------------------------------------ *)
(* What survives between calls in one thread besides the objects: the ambient
   decimal context - signal flags raised by earlier arithmetic (Decimal("abc")
   leaves InvalidOperation behind before the code turns it into FormatError)
   and whatever the CALLER configured (traps, precision, rounding, Emax, ...).
   The repaired code never reads it: it rounds in a context of its own.  The
   machine below carries it along explicitly so that this can be stated. *)
Record ambient := mkAmb { amb_flags : list N; amb_settings : list N }.

Inductive aop :=
| ASet (a : ambient)                              (* the caller changes its context *)
| ACall (ca : attrs) (e : list N * reading).      (* check_convert_value(value, char) *)

(* signals a call leaves behind (3 = InvalidOperation from a rejected reading) *)
Definition after_call (a : ambient) (e : list N * reading) : ambient :=
  match snd e with
  | RReject => mkAmb (3%N :: amb_flags a) (amb_settings a)
  | _ => a
  end.

Definition astep (a : ambient) (o : aop) : ambient * option (res cerr cval) :=
  match o with
  | ASet a' => (a', None)
  | ACall ca e => (after_call a e, Some (convert_for ca e))
  end.

Fixpoint arun (a : ambient) (h : list aop) : list (res cerr cval) :=
  match h with
  | [] => []
  | o :: r => match astep a o with
              | (a', Some x) => x :: arun a' r
              | (a', None) => arun a' r
              end
  end.

(* the calls of a history, each judged on its own *)
Fixpoint acalls (h : list aop) : list (res cerr cval) :=
  match h with
  | [] => []
  | ASet _ :: r => acalls r
  | ACall ca e :: r => convert_for ca e :: acalls r
  end.
