(* C18, round 8: the accessory DATABASE is replaced between notifications, and a pairing is
   LOADED AGAIN inside a running controller.  Definitions only (proofs: Proofs/BcastDb.v).

   Until round 7 the database (p_chars, p_sig) of a pairing was a constant of a history and a
   pairing object lived from a (re)start of the process to the next.  In the code
     - the database is replaced by AbstractPairing.restore_accessories_state (the integration hands
       in its stored copy: state number and key are handed in too, i.e. kept), and by
       BlePairing._populate_accessories_and_characteristics when the advertised config number
       differs from the cached one (reached from _process_config_changed, started as a task by a
       regular advertisement with a higher c#, and from async_populate_accessories_state); the
       second route builds AccessoriesState(accessories, c#, key) WITHOUT a state number, so the
       persisted copy becomes None, and then _populate_char_values writes the accessory's GSN into
       the description;
     - BleController.load_pairing may be called again for the same id (integration reload:
       shutdown() + load_pairing on the same controller).  The new BlePairing reads key, database
       and persisted number from the characteristic cache; its description is the description
       object of the controller's DISCOVERY for that id when there is one - the very object the
       previous pairing advanced on every accepted broadcast, because every regular advertisement
       stores ONE HomeKitAdvertisement object in both pairing.description and
       discovery.description - and from_cache(persisted number) otherwise (= what a restart does).
   _async_notification looks the characteristic up in the CURRENT database at every call. *)
From Coq Require Import List NArith Bool.
From AHK Require Import Lib.ByteStr Model.Bcast.
Import ListNotations.
Open Scope N_scope.

(* the pairing after its database was replaced; keep = the route hands the persisted number in
   (restore_accessories_state) / false = the route drops it (re-read after a config change) *)
Definition with_db (p : pairing) (cs : list (N * fmt)) (sg keep : bool) : pairing :=
  mkP (p_id p) (p_key p) (p_sn p) (if keep then p_psn p else None) cs sg.

(* controller state: the pairings, and the ids for which the controller holds a discovery whose
   description object is the one the pairing of that id uses *)
Record xstate := mkX { x_c : ctrl; x_disc : list bytes }.

Definition mem_id (i : bytes) (l : list bytes) : bool := existsb (beq_bytes i) l.

(* load_pairing for an id that is already loaded *)
Definition reload_p (disc : bool) (p : pairing) : pairing := if disc then p else restart_p p.

Inductive xop :=
| XOp (o : op)                                          (* everything of rounds 1-7 *)
| XDb (i : bytes) (cs : list (N * fmt)) (sg keep : bool) (* database of pairing i replaced *)
| XReload (i : bytes).                                   (* pairing i shut down and loaded again *)

Definition disc_after (o : op) (d : list bytes) : list bytes :=
  match o with
  | OPlain i _ => i :: d          (* a regular advertisement creates / refreshes the discovery *)
  | ORestart => []                (* a new controller has seen nothing yet *)
  | _ => d
  end.

Definition xapply (st : xstate) (x : xop) : xstate * outcome * list call :=
  match x with
  | XOp o => let '(c', oc, cl) := apply (x_c st) o in (mkX c' (disc_after o (x_disc st)), oc, cl)
  | XDb i cs sg keep =>
      (mkX (upd_pairing (fun p => with_db p cs sg keep) (x_c st) i) (x_disc st), OOtherType, [])
  | XReload i =>
      (mkX (upd_pairing (reload_p (mem_id i (x_disc st))) (x_c st) i) (x_disc st), OOtherType, [])
  end.

Definition xfinal (st : xstate) (h : list xop) : xstate :=
  fold_left (fun s x => fst (fst (xapply s x))) h st.

(* a regular advertisement announcing a higher config number (state number n): the description is
   replaced at once (= OPlain), the re-read of the database runs as a task and suspends in its
   connection attempt; advertisements are delivered meanwhile and see the OLD database *)
Definition cfg_begin (i : bytes) (n : N) : list xop := [XOp (OPlain i n)].
(* the re-read completed: new database (persisted number dropped), then the accessory's GSN g is
   written into the description by _populate_char_values *)
Definition cfg_end (i : bytes) (cs : list (N * fmt)) (sg : bool) (g : N) : list xop :=
  [XDb i cs sg false; XOp (OPopulate i g)].
