(* C13 extension - the listener call log of one write (definitions only).

   IpPairing.put_characteristics / CoAPPairing.put_characteristics end with
       if listener_update: self._callback_listeners(listener_update)
   i.e. ONE call carrying the whole update dict, and no call at all when it is empty.
   BlePairing.put_characteristics calls the listeners once per accepted readable request item,
   inside the loop ([fst (ble_put ...)], already a list in call order). *)
From Coq Require Import List NArith ZArith Bool.
From AHK Require Import Lib.Res Model.CharIO.
Import ListNotations.

(* the calls made for a final listener_update dict *)
Definition listener_events (lu : dict Z) : list (dict Z) :=
  match lu with [] => [] | _ => [lu] end.

(* how many (key, value) pairs of one dict / call carry key k *)
Definition kcount {A} (k : cid) (m : dict A) : nat :=
  length (filter (fun p => cid_eqb k (fst p)) m).

(* how many times listeners are told a value for k over a whole call log *)
Fixpoint deliveries (k : cid) (evs : list (dict Z)) : nat :=
  match evs with
  | [] => 0
  | e :: t => kcount k e + deliveries k t
  end.

(* k is one of the ids the caller wrote *)
Definition requested (reqs : list (cid * Z)) (k : cid) : bool :=
  existsb (fun q => cid_eqb k (fst q)) reqs.

(* BLE: the request items whose acceptance is announced for key k, in request order *)
Definition ble_announced (perm : N -> bperm) (readable : N -> bool) (k : cid) (items : list bitem) : list bitem :=
  filter (fun it => cid_eqb k (b_key it) && (ble_sent perm it && readable (snd (b_key it)))) items.

(* l1 is l2 with some elements dropped, order kept *)
Inductive subseq {A} : list A -> list A -> Prop :=
| sub_nil : subseq [] []
| sub_skip : forall x l1 l2, subseq l1 l2 -> subseq l1 (x :: l2)
| sub_take : forall x l1 l2, subseq l1 l2 -> subseq (x :: l1) (x :: l2).
