(* C06 - nonce counters of the three encrypted transports, as the code is written.

   Three small machines, one event alphabet:
     IP    aiohomekit/controller/ip/connection.py  SecureHomeKitProtocol
           (send_bytes / data_received / _send_lines close-on-any-failure)
     BLE   aiohomekit/controller/ble/key.py EncryptionKey/DecryptionKey,
           ble/client.py ble_request/_write_pdu/_read_pdu,
           ble/pairing.py _async_request_under_lock/_close_while_locked,
           _populate_accessories_and_characteristics + _async_pair_verify
     CoAP  aiohomekit/controller/coap/connection.py EncryptionContext
           (encrypt/decrypt/_decrypt_response/post_bytes) and
           EventResource.render_put -> decrypt_event

   Cryptography is symbolic: a frame is either the genuine frame the accessory
   sealed under (key epoch, direction, nonce) - there is exactly one such frame -
   or junk; a frame opens under (key, nonce) iff it is that genuine frame
   (authenticity relative to the sender log).

   Outputs of a run (all oldest first):
     l_seal  every (epoch, direction, nonce) passed to the AEAD seal
     l_wire  the sealed frames that were actually handed to the transport
     l_open  every (epoch, direction, nonce) tried on an incoming frame + success
     l_acc   the identities of the frames whose plaintext was accepted
     l_out   per request: (epoch, request number, ok / failed / cancelled / crash) *)
From Coq Require Import List Arith Bool PeanoNat.
Import ListNotations.

Inductive dir := C2A | A2C | EVT.

Definition dir_eqb (a b : dir) : bool :=
  match a, b with
  | C2A, C2A | A2C, A2C | EVT, EVT => true
  | _, _ => false
  end.

(* a channel = one key: (epoch of the pair-verify that produced it, direction) *)
Definition chan := (nat * dir)%type.
Definition nid := (chan * nat)%type.            (* key and nonce *)

Definition chan_eqb (a b : chan) : bool :=
  Nat.eqb (fst a) (fst b) && dir_eqb (snd a) (snd b).
Definition nid_eqb (a b : nid) : bool :=
  chan_eqb (fst a) (fst b) && Nat.eqb (snd a) (snd b).

Inductive frame := Genuine (x : nid) | Junk.

Definition opens (x : nid) (f : frame) : bool :=
  match f with Genuine y => nid_eqb x y | Junk => false end.

Inductive rclass := ROk | RFail | RCancel | RCrash.

Definition rclass_bad (c : rclass) : bool :=
  match c with ROk => false | _ => true end.

Record logs := mkLogs {
  l_seal : list nid;
  l_wire : list nid;
  l_open : list (nid * bool);
  l_acc : list nid;
  l_out : list (nat * nat * rclass)
}.

Definition nolog := mkLogs [] [] [] [] [].

Definition add_seal xs L := mkLogs (l_seal L ++ xs) (l_wire L) (l_open L) (l_acc L) (l_out L).
Definition add_wire xs L := mkLogs (l_seal L) (l_wire L ++ xs) (l_open L) (l_acc L) (l_out L).
Definition add_open xs L := mkLogs (l_seal L) (l_wire L) (l_open L ++ xs) (l_acc L) (l_out L).
Definition add_acc xs L := mkLogs (l_seal L) (l_wire L) (l_open L) (l_acc L ++ xs) (l_out L).
Definition add_out xs L := mkLogs (l_seal L) (l_wire L) (l_open L) (l_acc L) (l_out L ++ xs).

(* nonces n, n+1, ..., n+k-1 on channel c *)
Definition nids (c : chan) (n k : nat) : list nid := map (fun j => (c, j)) (seq n k).

(* the frames P_0 ... P_{m-1} of channel c *)
Definition pref (c : chan) (m : nat) : list nid := nids c 0 m.

(* the part of a log that belongs to one channel / one epoch *)
Definition under (c : chan) (l : list nid) : list nid :=
  filter (fun x => chan_eqb (fst x) c) l.
Definition under_o (c : chan) (l : list (nid * bool)) : list (nid * bool) :=
  filter (fun x => chan_eqb (fst (fst x)) c) l.
Definition under_ep (e : nat) (l : list nid) : list nid :=
  filter (fun x => Nat.eqb (fst (fst x)) e) l.
Definition under_ep_o (e : nat) (l : list (nid * bool)) : list (nid * bool) :=
  filter (fun x => Nat.eqb (fst (fst (fst x))) e) l.

(* epoch e has a recorded failure: a request that failed / was cancelled, or an
   open attempt that was rejected *)
Definition failed_in (L : logs) (e : nat) : bool :=
  existsb (fun o => Nat.eqb (fst (fst o)) e && rclass_bad (snd o)) (l_out L)
  || existsb (fun o => Nat.eqb (fst (fst (fst o))) e && negb (snd o)) (l_open L).

(* ------------------------------------------------------------------ events *)
Inductive ev :=
| Send (n cont : nat)   (* request with n payload bytes; the accessory's answer will have
                           1+cont fragments (BLE only) *)
| SendW (n cont j : nat) (* BLE: like Send, but the GATT write of fragment j is refused (BleakError, link up or
                           dropping); no such fragment = plain Send.  Not an event of the IP / CoAP machines *)
| SendX (n : nat)       (* IP: a request that is cancelled at its first suspension point, i.e. (send_bytes has no
                           await of its own) inside _send_lines, after its frames were sealed and written.  Not an
                           event of the BLE / CoAP machines *)
| Next                  (* the accessory's next frame is delivered *)
| Next404               (* CoAP: the accessory's next response arrives with code 4.04 Not Found (post_bytes shuts the
                           context down and still decrypts the payload).  Not an event of the IP / BLE machines *)
| NextBad               (* IP: the accessory's next frame arrives, opens, and the layer above raises on its plaintext
                           (malformed status line, undecodable event body, unknown message kind): the exception
                           leaves data_received AFTER a2c_counter was advanced and is fatal for the transport.
                           Not an event of the BLE / CoAP machines *)
| Replay (i : nat)      (* the genuine frame with nonce i of the current key is delivered *)
| ReplayOld (i : nat)   (* the genuine frame with nonce i of the previous key epoch *)
| Future (k : nat)      (* the accessory skipped k nonces: frame srv+k is delivered *)
| Corrupt               (* the next frame arrives damaged *)
| Cancel                (* the in-flight (oldest) request is cancelled *)
| Timeout               (* the in-flight request times out *)
| Disconnect            (* the peer drops the link *)
| Reconnect             (* a new pair-verify is run (new keys) where the code would run one *)
| LateDisc              (* BLE: bleak delivers a disconnected callback although the link is up (keys dropped by
                           _async_reset_connection_state), then the next operation starts: with no request in flight
                           _populate_accessories_and_characteristics runs a new pair-verify on the same link.
                           Ignored while a request is in flight; not an event of the IP / CoAP machines *)
| ENext | EReplay (i : nat) | EFuture (k : nat) | ECorrupt.   (* CoAP event channel *)

(* ===================================================================== IP *)
(* ip/connection.py:242-256  send_bytes: one frame per 1024-byte chunk, all sealed
   before _send_lines looks at the transport *)
Definition chunks (n : nat) : nat := (n + 1023) / 1024.

Record ip := mkIp {
  i_ep : nat; i_c2a : nat; i_a2c : nat;
  i_closed : bool;            (* transport.is_closing() *)
  i_pend : list nat;          (* result_cbs, oldest first (request numbers) *)
  i_srv : nat;                (* environment: the accessory's next nonce *)
  i_nreq : nat;
  i_log : logs
}.

Definition ip_init := mkIp 0 0 0 false [] 0 0 nolog.

Definition ip_setlog s L := mkIp (i_ep s) (i_c2a s) (i_a2c s) (i_closed s) (i_pend s) (i_srv s) (i_nreq s) L.
Definition ip_setsrv s v := mkIp (i_ep s) (i_c2a s) (i_a2c s) (i_closed s) (i_pend s) v (i_nreq s) (i_log s).

Definition outs (e : nat) (c : rclass) (ids : list nat) : list (nat * nat * rclass) :=
  map (fun id => (e, id, c)) ids.

(* transport.close(): connection_lost -> _cancel_pending_requests *)
Definition ip_close (s : ip) : ip :=
  mkIp (i_ep s) (i_c2a s) (i_a2c s) true [] (i_srv s) (i_nreq s)
       (add_out (outs (i_ep s) RFail (i_pend s)) (i_log s)).

(* data_received with one complete frame (ip/connection.py:258-296); a closing
   transport delivers nothing; RuntimeError out of data_received is fatal for the
   transport (asyncio contract) *)
Definition ip_deliver (s : ip) (f : frame) : ip :=
  if i_closed s then s else
  let x := ((i_ep s, A2C), i_a2c s) in
  if opens x f then
    let L := add_acc [x] (add_open [(x, true)] (i_log s)) in
    match i_pend s with
    | [] => mkIp (i_ep s) (i_c2a s) (S (i_a2c s)) false [] (i_srv s) (i_nreq s) L
    | id :: rest =>
        mkIp (i_ep s) (i_c2a s) (S (i_a2c s)) false rest (i_srv s) (i_nreq s)
             (add_out [(i_ep s, id, ROk)] L)
    end
  else ip_close (ip_setlog s (add_open [(x, false)] (i_log s))).

(* a frame whose plaintext makes InsecureHomeKitProtocol.data_received raise: decrypted and counted, then the
   exception closes the transport; no request is completed by it *)
Definition ip_deliver_bad (s : ip) (f : frame) : ip :=
  if i_closed s then s else
  let x := ((i_ep s, A2C), i_a2c s) in
  if opens x f then
    ip_close (mkIp (i_ep s) (i_c2a s) (S (i_a2c s)) false (i_pend s) (i_srv s) (i_nreq s)
                   (add_acc [x] (add_open [(x, true)] (i_log s))))
  else ip_close (ip_setlog s (add_open [(x, false)] (i_log s))).

Definition ip_deliver_at (s : ip) (i : nat) : ip :=
  ip_deliver (ip_setsrv s (Nat.max (i_srv s) (S i))) (Genuine ((i_ep s, A2C), i)).

Definition ip_step (s : ip) (e : ev) : ip :=
  match e with
  | Send n _ =>
      let k := chunks n in
      let xs := nids (i_ep s, C2A) (i_c2a s) k in
      if i_closed s then
        mkIp (i_ep s) (i_c2a s + k) (i_a2c s) true (i_pend s) (i_srv s) (S (i_nreq s))
             (add_out [(i_ep s, i_nreq s, RFail)] (add_seal xs (i_log s)))
      else
        mkIp (i_ep s) (i_c2a s + k) (i_a2c s) false (i_pend s ++ [i_nreq s]) (i_srv s) (S (i_nreq s))
             (add_wire xs (add_seal xs (i_log s)))
  | SendX n =>
      let k := chunks n in
      let xs := nids (i_ep s, C2A) (i_c2a s) k in
      if i_closed s then
        mkIp (i_ep s) (i_c2a s + k) (i_a2c s) true (i_pend s) (i_srv s) (S (i_nreq s))
             (add_out [(i_ep s, i_nreq s, RFail)] (add_seal xs (i_log s)))
      else
        (* CancelledError inside _send_lines: write_eof + close; the other pending requests fail *)
        mkIp (i_ep s) (i_c2a s + k) (i_a2c s) true [] (i_srv s) (S (i_nreq s))
             (add_out ((i_ep s, i_nreq s, RCancel) :: outs (i_ep s) RFail (i_pend s))
                      (add_wire xs (add_seal xs (i_log s))))
  | SendW _ _ _ | Next404 => s
  | NextBad => ip_deliver_bad (ip_setsrv s (S (i_srv s))) (Genuine ((i_ep s, A2C), i_srv s))
  | Next => ip_deliver_at s (i_srv s)
  | Replay i => ip_deliver_at s i
  | ReplayOld i =>
      match i_ep s with
      | 0 => s
      | S e' => ip_deliver s (Genuine ((e', A2C), i))
      end
  | Future k => ip_deliver_at s (i_srv s + k)
  | Corrupt => ip_deliver (ip_setsrv s (S (i_srv s))) Junk
  | Cancel =>
      match i_pend s with
      | [] => s
      | id :: rest =>
          mkIp (i_ep s) (i_c2a s) (i_a2c s) true [] (i_srv s) (i_nreq s)
               (add_out ((i_ep s, id, RCancel) :: outs (i_ep s) RFail rest) (i_log s))
      end
  | Timeout =>
      match i_pend s with
      | [] => s
      | _ => ip_close s
      end
  | Disconnect => if i_closed s then s else ip_close s
  | Reconnect =>
      let s' := if i_closed s then s else ip_close s in
      mkIp (S (i_ep s)) 0 0 false [] 0 (i_nreq s) (i_log s')
  | LateDisc | ENext | EReplay _ | EFuture _ | ECorrupt => s
  end.

Definition ip_run (s : ip) (h : list ev) : ip := fold_left ip_step h s.

(* ==================================================================== BLE *)
(* pdu.py encode_pdu with the harness client's fragment size 27 (43 - 16):
   no data -> 1 PDU; else 20 bytes in the first, 25 in each continuation *)
Definition ble_frags (n : nat) : nat :=
  match n with 0 => 1 | _ => 1 + (n - 20 + 24) / 25 end.

Record ble := mkBle {
  b_ep : nat;
  b_sess : option (nat * nat);     (* client connected and keys installed: (enc ctr, dec ctr) *)
  b_infl : option (nat * nat);     (* request holding _ble_request_lock: (number, reads left) *)
  b_wait : list (nat * nat * nat * option nat); (* waiting for the lock: (number, n, cont, refused write) *)
  b_srv : nat;
  b_nreq : nat;
  b_log : logs
}.

Definition ble_init := mkBle 0 (Some (0, 0)) None [] 0 0 nolog.

(* the lock is free: start waiting requests until one gets as far as its first read.
   _async_request_under_lock: not connected -> AccessoryDisconnectedError, nothing sealed;
   _write_pdu: seal every fragment, then write them all *)
Fixpoint ble_drain (ep : nat) (sess : option (nat * nat)) (srv nreq : nat) (L : logs)
         (w : list (nat * nat * nat * option nat)) : ble :=
  match w with
  | [] => mkBle ep sess None [] srv nreq L
  | (id, n, cont, wf) :: r =>
      match sess with
      | None => ble_drain ep None srv nreq (add_out [(ep, id, RFail)] L) r
      | Some (enc, dec) =>
          let k := ble_frags n in
          let xs := nids (ep, C2A) enc k in
          let refused := match wf with Some j => if Nat.ltb j k then Some j else None | None => None end in
          match refused with
          | Some j =>
              (* every fragment is sealed, fragments 0..j-1 are written, write j raises:
                 except BaseException -> _close_while_locked *)
              ble_drain ep None srv nreq
                        (add_out [(ep, id, RFail)] (add_wire (firstn j xs) (add_seal xs L))) r
          | None =>
              mkBle ep (Some (enc + k, dec)) (Some (id, S cont)) r srv nreq
                    (add_wire xs (add_seal xs L))
          end
      end
  end.

(* one read_gatt_char result reaches _read_pdu *)
Definition ble_deliver (s : ble) (f : frame) : ble :=
  match b_infl s, b_sess s with
  | Some (id, lft), Some (enc, dec) =>
      let x := ((b_ep s, A2C), dec) in
      if opens x f then
        let L := add_acc [x] (add_open [(x, true)] (b_log s)) in
        match lft with
        | S (S l') => mkBle (b_ep s) (Some (enc, S dec)) (Some (id, S l')) (b_wait s) (b_srv s) (b_nreq s) L
        | _ => ble_drain (b_ep s) (Some (enc, S dec)) (b_srv s) (b_nreq s)
                         (add_out [(b_ep s, id, ROk)] L) (b_wait s)
        end
      else
        (* EncryptionError -> except BaseException -> _close_while_locked *)
        ble_drain (b_ep s) None (b_srv s) (b_nreq s)
                  (add_out [(b_ep s, id, RFail)] (add_open [(x, false)] (b_log s))) (b_wait s)
  | _, _ => s
  end.

Definition ble_setsrv s v := mkBle (b_ep s) (b_sess s) (b_infl s) (b_wait s) v (b_nreq s) (b_log s).

Definition ble_deliver_at (s : ble) (i : nat) : ble :=
  match b_infl s with
  | None => s
  | Some _ => ble_deliver (ble_setsrv s (Nat.max (b_srv s) (S i))) (Genuine ((b_ep s, A2C), i))
  end.

(* the in-flight request ends with class c and the connection is closed *)
Definition ble_abort (s : ble) (c : rclass) : ble :=
  match b_infl s with
  | None => s
  | Some (id, _) =>
      ble_drain (b_ep s) None (b_srv s) (b_nreq s) (add_out [(b_ep s, id, c)] (b_log s)) (b_wait s)
  end.

Definition ble_send (s : ble) (n cont : nat) (wf : option nat) : ble :=
  match b_infl s with
  | Some _ => mkBle (b_ep s) (b_sess s) (b_infl s) (b_wait s ++ [(b_nreq s, n, cont, wf)])
                    (b_srv s) (S (b_nreq s)) (b_log s)
  | None => ble_drain (b_ep s) (b_sess s) (b_srv s) (S (b_nreq s)) (b_log s) [(b_nreq s, n, cont, wf)]
  end.

Definition ble_step (s : ble) (e : ev) : ble :=
  match e with
  | Send n cont => ble_send s n cont None
  | SendW n cont j => ble_send s n cont (Some j)
  | Next404 | SendX _ | NextBad => s
  | Next => ble_deliver_at s (b_srv s)
  | Replay i => ble_deliver_at s i
  | ReplayOld i =>
      match b_infl s, b_ep s with
      | Some _, S e' => ble_deliver s (Genuine ((e', A2C), i))
      | _, _ => s
      end
  | Future k => ble_deliver_at s (b_srv s + k)
  | Corrupt =>
      match b_infl s with
      | None => s
      | Some _ => ble_deliver (ble_setsrv s (S (b_srv s))) Junk
      end
  | Cancel => ble_abort s RCancel
  | Timeout => ble_abort s RFail
  | Disconnect =>
      match b_infl s with
      | Some _ => ble_abort s RFail
      | None => mkBle (b_ep s) None None (b_wait s) (b_srv s) (b_nreq s) (b_log s)
      end
  | Reconnect =>
      (* _ensure_connected + "if not self._encryption_key: await self._async_pair_verify()" *)
      match b_sess s with
      | Some _ => s
      | None => mkBle (S (b_ep s)) (Some (0, 0)) (b_infl s) (b_wait s) 0 (b_nreq s) (b_log s)
      end
  | LateDisc =>
      match b_infl s with
      | Some _ => s
      | None => mkBle (S (b_ep s)) (Some (0, 0)) None (b_wait s) 0 (b_nreq s) (b_log s)
      end
  | ENext | EReplay _ | EFuture _ | ECorrupt => s
  end.

Definition ble_run (s : ble) (h : list ev) : ble := fold_left ble_step h s.

(* =================================================================== CoAP *)
Record coap := mkCoap {
  c_ep : nat;
  c_send : nat; c_recv : nat; c_evt : nat;
  c_alive : bool;              (* coap_ctx is not None *)
  c_infl : option nat;         (* request holding EncryptionContext.lock *)
  c_wait : list nat;
  c_srv : nat; c_esrv : nat;
  c_nreq : nat;
  c_log : logs
}.

Definition coap_init := mkCoap 0 0 0 0 true None [] 0 0 0 nolog.

(* post_bytes after the lock is taken: encrypt (send_ctr += 1), then
   self.coap_ctx.request(...) - AttributeError when coap_ctx is None *)
Fixpoint coap_drain (ep send recv evt : nat) (alive : bool) (srv esrv nreq : nat) (L : logs)
         (w : list nat) : coap :=
  match w with
  | [] => mkCoap ep send recv evt alive None [] srv esrv nreq L
  | id :: r =>
      let x := ((ep, C2A), send) in
      if alive then
        mkCoap ep (S send) recv evt true (Some id) r srv esrv nreq (add_wire [x] (add_seal [x] L))
      else
        coap_drain ep (S send) recv evt false srv esrv nreq
                   (add_out [(ep, id, RCrash)] (add_seal [x] L)) r
  end.

(* the nonces tried in order; stops at the first that opens *)
Fixpoint try_open (c : chan) (f : frame) (cands : list nat) : list (nid * bool) * option nat :=
  match cands with
  | [] => ([], None)
  | n :: r =>
      if opens (c, n) f then ([((c, n), true)], Some n)
      else let ar := try_open c f r in (((c, n), false) :: fst ar, snd ar)
  end.

(* _decrypt_response: recv_ctr, then rewind min(5, recv_ctr), then forward 5 *)
Definition coap_cands (recv : nat) : list nat :=
  let rw := Nat.min 5 recv in
  recv :: seq (recv - rw) rw ++ seq (S recv) 5.

Definition coap_response (s : coap) (f : frame) (nf : bool) : coap :=
  match c_infl s with
  | None => s
  | Some id =>
      (* post_bytes: response.code == NOT_FOUND -> shutdown; coap_ctx = None - and then _decrypt_response anyway *)
      let alive := if nf then false else c_alive s in
      let c := (c_ep s, A2C) in
      let ar := try_open c f (coap_cands (c_recv s)) in
      match snd ar with
      | Some n =>
          coap_drain (c_ep s) (c_send s) (S n) (c_evt s) alive (c_srv s) (c_esrv s) (c_nreq s)
                     (add_out [(c_ep s, id, ROk)] (add_acc [(c, n)] (add_open (fst ar) (c_log s))))
                     (c_wait s)
      | None =>
          (* "try zeroing out the counters": recv_ctr = 0, send_ctr = 0 *)
          if opens (c, 0) f then
            coap_drain (c_ep s) 0 1 (c_evt s) alive (c_srv s) (c_esrv s) (c_nreq s)
                       (add_out [(c_ep s, id, ROk)]
                          (add_acc [(c, 0)] (add_open (fst ar ++ [((c, 0), true)]) (c_log s))))
                       (c_wait s)
          else
            (* shutdown; coap_ctx = None; EncryptionError; both counters stay 0 *)
            coap_drain (c_ep s) 0 0 (c_evt s) false (c_srv s) (c_esrv s) (c_nreq s)
                       (add_out [(c_ep s, id, RFail)]
                          (add_open (fst ar ++ [((c, 0), false)]) (c_log s)))
                       (c_wait s)
      end
  end.

Definition coap_setsrv s v :=
  mkCoap (c_ep s) (c_send s) (c_recv s) (c_evt s) (c_alive s) (c_infl s) (c_wait s) v (c_esrv s) (c_nreq s) (c_log s).
Definition coap_setesrv s v :=
  mkCoap (c_ep s) (c_send s) (c_recv s) (c_evt s) (c_alive s) (c_infl s) (c_wait s) (c_srv s) v (c_nreq s) (c_log s).

Definition coap_response_at (s : coap) (i : nat) (nf : bool) : coap :=
  match c_infl s with
  | None => s
  | Some _ => coap_response (coap_setsrv s (Nat.max (c_srv s) (S i))) (Genuine ((c_ep s, A2C), i)) nf
  end.

(* the in-flight request ends without a response; [kill] = the NetworkError/TimeoutError
   branch (shutdown, coap_ctx = None); cancellation leaves the context alone *)
Definition coap_abort (s : coap) (c : rclass) (kill : bool) : coap :=
  match c_infl s with
  | None => s
  | Some id =>
      coap_drain (c_ep s) (c_send s) (c_recv s) (c_evt s) (if kill then false else c_alive s)
                 (c_srv s) (c_esrv s) (c_nreq s) (add_out [(c_ep s, id, c)] (c_log s)) (c_wait s)
  end.

(* EventResource.render_put -> decrypt_event: one try, counter moves only on success *)
Definition coap_event (s : coap) (f : frame) : coap :=
  let x := ((c_ep s, EVT), c_evt s) in
  if opens x f then
    mkCoap (c_ep s) (c_send s) (c_recv s) (S (c_evt s)) (c_alive s) (c_infl s) (c_wait s) (c_srv s)
           (c_esrv s) (c_nreq s) (add_acc [x] (add_open [(x, true)] (c_log s)))
  else
    mkCoap (c_ep s) (c_send s) (c_recv s) (c_evt s) (c_alive s) (c_infl s) (c_wait s) (c_srv s)
           (c_esrv s) (c_nreq s) (add_open [(x, false)] (c_log s)).

Definition coap_event_at (s : coap) (i : nat) : coap :=
  coap_event (coap_setesrv s (Nat.max (c_esrv s) (S i))) (Genuine ((c_ep s, EVT), i)).

Definition coap_step (s : coap) (e : ev) : coap :=
  match e with
  | Send _ _ =>
      match c_infl s with
      | Some _ => mkCoap (c_ep s) (c_send s) (c_recv s) (c_evt s) (c_alive s) (c_infl s)
                         (c_wait s ++ [c_nreq s]) (c_srv s) (c_esrv s) (S (c_nreq s)) (c_log s)
      | None => coap_drain (c_ep s) (c_send s) (c_recv s) (c_evt s) (c_alive s) (c_srv s) (c_esrv s)
                           (S (c_nreq s)) (c_log s) [c_nreq s]
      end
  | SendW _ _ _ | SendX _ | NextBad => s
  | Next => coap_response_at s (c_srv s) false
  | Next404 => coap_response_at s (c_srv s) true
  | Replay i => coap_response_at s i false
  | ReplayOld i =>
      match c_infl s, c_ep s with
      | Some _, S e' => coap_response s (Genuine ((e', A2C), i)) false
      | _, _ => s
      end
  | Future k => coap_response_at s (c_srv s + k) false
  | Corrupt =>
      match c_infl s with
      | None => s
      | Some _ => coap_response (coap_setsrv s (S (c_srv s))) Junk false
      end
  | Cancel => coap_abort s RCancel false
  | Timeout => coap_abort s RFail true
  | Disconnect | LateDisc => s
  | Reconnect =>
      (* do_pair_verify: the old context is shut down (an in-flight request gets a
         NetworkError, the waiters then run against coap_ctx = None), a new
         EncryptionContext with new keys and zero counters is installed *)
      let s' := coap_abort s RFail true in
      mkCoap (S (c_ep s)) 0 0 0 true None [] 0 0 (c_nreq s') (c_log s')
  | ENext => coap_event_at s (c_esrv s)
  | EReplay i => coap_event_at s i
  | EFuture k => coap_event_at s (c_esrv s + k)
  | ECorrupt => coap_event (coap_setesrv s (S (c_esrv s))) Junk
  end.

Definition coap_run (s : coap) (h : list ev) : coap := fold_left coap_step h s.

(* all decrypt attempts on the response channel succeeded *)
Definition resp_opens_ok (L : logs) : bool :=
  forallb (fun o => match snd (fst (fst o)) with A2C => snd o | _ => true end) (l_open L).

(* strictly increasing nonces: each frame at most once and in sending order *)
Fixpoint increasing_from (lo : nat) (l : list nat) : bool :=
  match l with
  | [] => true
  | n :: r => Nat.leb lo n && increasing_from (S n) r
  end.
Definition in_order (c : chan) (acc : list nid) : bool :=
  increasing_from 0 (map snd (under c acc)).

Fixpoint nodupb (l : list nid) : bool :=
  match l with
  | [] => true
  | x :: r => negb (existsb (nid_eqb x) r) && nodupb r
  end.
