(* C05 - encrypted IP session framing.
   Executable model of aiohomekit/controller/ip/connection.py::SecureHomeKitProtocol
     send_bytes      -> [send_sym] / [send] (symbolic frames) and [send_frames] (bytes)
     data_received   -> [step] / [drain] / [feed]
   and of a conformant accessory's receiver [acc_recv] (the specification side).

   The AEAD is abstract: a record of two functions on byte strings, constrained only
   by [aead_ok] (open . seal = Some, |seal p| = |p| + tag).  [toy_aead] at the end is a
   concrete instance of the hypotheses (so no theorem quantifying over [aead_ok] is
   vacuous).  Chunk size and tag length are parameters, instantiated at 1024 / 16 by
   [ip_send], [ip_feed] ... at the bottom of the file.

   Python facts written into the model:
   * PACK_NONCE = Struct("<LQ").pack(0, ctr): 4 zero bytes ++ LE64(ctr); raises
     struct.error when ctr >= 2^64 (send: the call fails and nothing is written;
     receive: the exception leaves data_received, i.e. the session ends).
   * send_bytes loops `while len(payload) > 0`, so an empty payload yields no frame.
   * data_received appends to _incoming_buffer, then loops while >= 2 bytes are
     buffered: exp_length = 2 + LE16 + 16; returns when the frame is incomplete;
     deletes exactly exp_length bytes; decrypts with aad = the two length bytes and
     the nonce of a2c_counter; DecryptionError -> RuntimeError leaves data_received
     (asyncio's selector transport then calls _fatal_error -> _force_close: no further
     data_received, connection_lost is delivered) = state [Dead]; otherwise the counter
     is incremented and the plaintext handed to the HTTP layer. *)
From Coq Require Import List NArith ZArith Arith Bool Lia ZifyN ZifyNat ZifyBool.
From AHK Require Import Lib.Res Lib.ByteStr.
Import ListNotations.

(* ------------------------------------------------------------------ AEAD *)
Record aead : Type := mkAead {
  seal : bytes -> bytes -> bytes -> bytes -> bytes;          (* key nonce aad plaintext *)
  open : bytes -> bytes -> bytes -> bytes -> option bytes    (* key nonce aad ciphertext++tag *)
}.

Definition aead_ok (A : aead) (T : nat) : Prop :=
  (forall k n a p, open A k n a (seal A k n a p) = Some p) /\
  (forall k n a p, length (seal A k n a p) = length p + T).

(* nonce layout: 00 00 00 00 ++ LE64 counter *)
Definition nonce_of (ctr : N) : bytes := [0; 0; 0; 0]%N ++ le_enc 8 ctr.
Definition ctr_limit : N := 18446744073709551616.   (* 2^64: Struct("<LQ").pack raises from here on *)

(* LE16 length prefix *)
Definition len16 (p : bytes) : bytes := le_enc 2 (N.of_nat (length p)).

(* ------------------------------------------------------------------ outbound *)
Record sframe : Type := mkSframe {
  sf_prefix : bytes;    (* the two bytes written in front of the ciphertext *)
  sf_nonce : bytes;     (* PACK_NONCE(c2a_counter) *)
  sf_ctr : N;           (* c2a_counter used for this frame *)
  sf_aad : bytes;
  sf_chunk : bytes      (* plaintext *)
}.

Section Chunked.
  Variable F : nat.     (* chunk size, 1024 *)

  (* the while loop of send_bytes; fuel = length payload suffices when 0 < F *)
  Fixpoint send_sym_f (fuel : nat) (ctr : N) (payload : bytes) : list sframe * N :=
    match fuel with
    | O => ([], ctr)
    | S f =>
        match payload with
        | [] => ([], ctr)
        | _ =>
            let cur := firstn F payload in
            let lb := len16 cur in
            let r := send_sym_f f (ctr + 1)%N (skipn F payload) in
            (mkSframe lb (nonce_of ctr) ctr lb cur :: fst r, snd r)
        end
    end.

  Definition send_sym (ctr : N) (payload : bytes) : list sframe * N :=
    send_sym_f (length payload) ctr payload.

  (* with Python's failure mode: packing a counter >= 2^64 raises (nothing is written) *)
  Definition send (ctr : N) (payload : bytes) : res unit (list sframe * N) :=
    let r := send_sym ctr payload in
    if nil_b (fst r) || (snd r <=? ctr_limit)%N then Ok r else Crash.
End Chunked.

(* consecutive counters ctr, ctr+1, ... *)
Fixpoint counters (ctr : N) (n : nat) : list N :=
  match n with O => [] | S m => ctr :: counters (ctr + 1)%N m end.

(* what every frame of a request looks like *)
Definition frame_shape (F : nat) (f : sframe) : Prop :=
  1 <= length (sf_chunk f) <= F /\
  sf_prefix f = len16 (sf_chunk f) /\
  sf_aad f = sf_prefix f /\
  sf_nonce f = nonce_of (sf_ctr f).

(* the bytes handed to transport.writelines, for a concrete cipher *)
Definition render (A : aead) (key : bytes) (f : sframe) : bytes :=
  sf_prefix f ++ seal A key (sf_nonce f) (sf_aad f) (sf_chunk f).

Definition send_frames (F : nat) (A : aead) (key : bytes) (ctr : N) (payload : bytes)
  : list bytes * N :=
  let r := send_sym F ctr payload in (map (render A key) (fst r), snd r).

(* ------------------------------------------------------------------ spec receiver *)
(* A conformant accessory: reads LE16 n (rejects n > F), reads n + T bytes, opens
   them with aad = the two length bytes and the nonce of its receive counter.  Returns
   the concatenated plaintext and the final counter iff the whole stream is a
   sequence of complete, authentic, conformant frames. *)
Section Receiver.
  Variable F : nat.
  Variable T : nat.     (* tag length, 16 *)
  Variable A : aead.
  Variable key : bytes.

  Fixpoint acc_recv (fuel : nat) (ctr : N) (s : bytes) : option (bytes * N) :=
    match fuel with
    | O => None
    | S f =>
        if nil_b s then Some ([], ctr) else
            if length s <? 2 then None else
            let hdr := firstn 2 s in
            let n := N.to_nat (le_dec hdr) in
            if F <? n then None else
            if length s <? 2 + (n + T) then None else
            match open A key (nonce_of ctr) hdr (firstn (n + T) (skipn 2 s)) with
            | None => None
            | Some p =>
                match acc_recv f (ctr + 1)%N (skipn (2 + (n + T)) s) with
                | None => None
                | Some (r, c) => Some (p ++ r, c)
                end
            end
    end.
End Receiver.

(* ------------------------------------------------------------------ inbound *)
Inductive rstate : Type :=
| Live (buf : bytes) (ctr : N)     (* _incoming_buffer, a2c_counter *)
| Dead.                            (* data_received raised: transport torn down *)

Inductive sres : Type :=
| NeedMore
| Frame (p : bytes) (rest : bytes)
| Fail.

Section Inbound.
  Variable T : nat.                                        (* tag length, 16 *)
  Variable opn : bytes -> bytes -> bytes -> option bytes.  (* nonce aad ct: decryptor.decrypt *)

  (* one iteration of the while loop *)
  Definition step (buf : bytes) (ctr : N) : sres :=
    if length buf <? 2 then NeedMore else
    let hdr := firstn 2 buf in
    let n := N.to_nat (le_dec hdr) in
    if length buf <? 2 + (n + T) then NeedMore else
    if (ctr_limit <=? ctr)%N then Fail else
    match opn (nonce_of ctr) hdr (firstn (n + T) (skipn 2 buf)) with
    | Some p => Frame p (skipn (2 + (n + T)) buf)
    | None => Fail
    end.

  Fixpoint drain (fuel : nat) (buf : bytes) (ctr : N) (acc : list bytes) : rstate * list bytes :=
    match fuel with
    | O => (Live buf ctr, acc)
    | S f =>
        match step buf ctr with
        | NeedMore => (Live buf ctr, acc)
        | Frame p rest => drain f rest (ctr + 1)%N (acc ++ [p])
        | Fail => (Dead, acc)
        end
    end.

  (* one data_received call: new state, plaintexts handed to the HTTP layer in order *)
  Definition feed (s : rstate) (d : bytes) : rstate * list bytes :=
    match s with
    | Dead => (Dead, [])
    | Live buf ctr => drain (S (length (buf ++ d))) (buf ++ d) ctr []
    end.

  (* a sequence of reads *)
  Fixpoint feed_all (s : rstate) (segs : list bytes) : rstate * list bytes :=
    match segs with
    | [] => (s, [])
    | d :: r =>
        let (s1, o1) := feed s d in
        let (s2, o2) := feed_all s1 r in (s2, o1 ++ o2)
    end.

  (* resting states: nothing more can be taken off the buffer *)
  Definition quiescent (s : rstate) : Prop :=
    match s with Dead => True | Live buf ctr => step buf ctr = NeedMore end.
End Inbound.

(* specification of "everything delivered was authenticated": the consumed part of the
   byte stream splits into complete frames (2-byte prefix h, body c of the announced
   length + tag) each of which the decrypt function opened with the nonce of its
   position's counter, yielding exactly the delivered plaintexts, in order *)
Fixpoint authentic (T : nat) (opn : bytes -> bytes -> bytes -> option bytes)
         (ctr : N) (frs : list (bytes * bytes)) (outs : list bytes) : Prop :=
  match frs, outs with
  | [], [] => True
  | (h, c) :: fr, p :: os =>
      length h = 2 /\ length c = N.to_nat (le_dec h) + T /\
      (ctr < ctr_limit)%N /\ opn (nonce_of ctr) h c = Some p /\
      authentic T opn (ctr + 1)%N fr os
  | _, _ => False
  end.
Definition flat (frs : list (bytes * bytes)) : bytes :=
  concat (map (fun hc => fst hc ++ snd hc) frs).

(* the accessory's side of the stream: frame i sealed with counter ctr + i *)
Definition seal_frame (A : aead) (key : bytes) (ctr : N) (p : bytes) : bytes :=
  len16 p ++ seal A key (nonce_of ctr) (len16 p) p.

Fixpoint seal_stream (A : aead) (key : bytes) (ctr : N) (ps : list bytes) : bytes :=
  match ps with
  | [] => []
  | p :: r => seal_frame A key ctr p ++ seal_stream A key (ctr + 1)%N r
  end.

(* ------------------------------------------------------------------ a whole session *)
(* One live protocol object: requests, network reads, cancellation of an in-flight
   request and the transport's flow-control callbacks interleaved in any order.
   * send_bytes seals (advancing c2a_counter) and only then `_send_lines` looks at
     transport.is_closing(): on a dead session the request is refused
     (AccessoryDisconnectedError), nothing is written.
   * cancelling / timing out a request that awaits its response closes the transport
     (`except BaseException: write_eof(); close()`): no further reads, sends refused.
     (Precondition kept by the harness: OCancel only while a request is in flight.)
   * pause_writing / resume_writing are asyncio.Protocol's no-ops: a request issued
     while the transport is paused is written at once (the transport buffers it).
   * a request that would need a counter >= 2^64 raises struct.error out of the sealing
     loop: nothing is written, the session is NOT closed, and c2a_counter is left at 2^64
     (the frames before the failing one consumed their counters), so every later
     non-empty request raises as well. *)
Inductive sop : Type :=
| OSend (p : bytes)
| ORecv (d : bytes)
| OCancel
| OPause
| OResume.

Inductive sev : Type :=
| EWrote (fs : list sframe)    (* frames handed to transport.writelines by this request *)
| ERaise                       (* struct.error, nothing written *)
| ERefused                     (* transport closing: AccessoryDisconnectedError, nothing written *)
| EDeliv (ps : list bytes)     (* plaintexts handed to the HTTP layer by this read *)
| EClosed
| ENop.

Record sess : Type := mkSess { s_rx : rstate; s_tx : N }.

Section Session.
  Variable F : nat.
  Variable T : nat.
  Variable opn : bytes -> bytes -> bytes -> option bytes.

  Definition sess_step (s : sess) (o : sop) : sess * sev :=
    match o with
    | OSend p =>
        match send F (s_tx s) p with
        | Ok r =>
            match s_rx s with
            | Dead => (mkSess Dead (snd r), ERefused)
            | Live b c => (mkSess (Live b c) (snd r), EWrote (fst r))
            end
        | _ => (mkSess (s_rx s) (N.max (s_tx s) ctr_limit), ERaise)
        end
    | ORecv d => let (r, o) := feed T opn (s_rx s) d in (mkSess r (s_tx s), EDeliv o)
    | OCancel => (mkSess Dead (s_tx s), EClosed)
    | OPause => (s, ENop)
    | OResume => (s, ENop)
    end.

  Fixpoint sess_run (s : sess) (ops : list sop) : sess * list sev :=
    match ops with
    | [] => (s, [])
    | o :: r =>
        let (s1, e) := sess_step s o in
        let (s2, es) := sess_run s1 r in (s2, e :: es)
    end.

  (* requests one after the other, counter threaded through *)
  Fixpoint sends_seq (ctr : N) (ps : list bytes) : list (list sframe) * N :=
    match ps with
    | [] => ([], ctr)
    | p :: r =>
        let x := send_sym F ctr p in
        let y := sends_seq (snd x) r in (fst x :: fst y, snd y)
    end.
End Session.

(* projections of a script / of its trace *)
Fixpoint recvs (ops : list sop) : list bytes :=
  match ops with [] => [] | ORecv d :: r => d :: recvs r | _ :: r => recvs r end.
Fixpoint sent (ops : list sop) : list bytes :=
  match ops with [] => [] | OSend p :: r => p :: sent r | _ :: r => sent r end.
Fixpoint delivered (es : list sev) : list bytes :=
  match es with [] => [] | EDeliv ps :: r => ps ++ delivered r | _ :: r => delivered r end.
Fixpoint wrote (es : list sev) : list (list sframe) :=
  match es with [] => [] | EWrote fs :: r => fs :: wrote r | _ :: r => wrote r end.
Definition no_cancel (o : sop) : bool := match o with OCancel => false | _ => true end.
Definition accepted_ev (e : sev) : bool :=
  match e with ERaise => false | ERefused => false | _ => true end.

(* ------------------------------------------------------------------ toy instance *)
(* ciphertext = plaintext ++ 16-byte "tag" = nonce ++ aad, zero padded / cut to 16
   bytes; open checks the length and the tag (so a wrong counter or a wrong length
   prefix is rejected).  Only used to show [aead_ok] is satisfiable and for the
   concrete Examples. *)
Definition toy_tag (n a : bytes) : bytes := firstn 16 (n ++ a ++ repeat 0%N 16).
Definition toy_seal (k n a p : bytes) : bytes := p ++ toy_tag n a.
Fixpoint beq_bytes (x y : bytes) : bool :=
  match x, y with
  | [], [] => true
  | a :: x', b :: y' => N.eqb a b && beq_bytes x' y'
  | _, _ => false
  end.
Definition toy_open (k n a c : bytes) : option bytes :=
  if length c <? 16 then None else
  let m := length c - 16 in
  if beq_bytes (skipn m c) (toy_tag n a) then Some (firstn m c) else None.
Definition toy_aead : aead := mkAead toy_seal toy_open.

(* ------------------------------------------------------------------ instances *)
Definition CHUNK : nat := 1024.
Definition TAGLEN : nat := 16.
Definition ip_send_sym := send_sym CHUNK.
Definition ip_send := send CHUNK.
Definition ip_send_frames := send_frames CHUNK.
Definition ip_acc_recv := acc_recv CHUNK TAGLEN.
Definition ip_step := step TAGLEN.
Definition ip_feed := feed TAGLEN.
Definition ip_feed_all := feed_all TAGLEN.
Definition ip_sess_step := sess_step CHUNK TAGLEN.
Definition ip_sess_run := sess_run CHUNK TAGLEN.
Definition ip_sends_seq := sends_seq CHUNK.
