(* Bit-exact executable model of the AEAD the secure sessions run on
   (aiohomekit/crypto/chacha20poly1305.py):

     ChaCha20Poly1305Encryptor.encrypt(aad, nonce, pt)   -> [cp_seal key nonce aad pt]
     ChaCha20Poly1305Decryptor.decrypt(aad, nonce, box)   -> [cp_open key nonce aad box]   (None = InvalidTag)
     ChaCha20Poly1305PartialTag.open(nonce, box, aad)     -> [cp_open_partial key nonce aad box]
                                                             (the 4-byte tag of BLE broadcast notifications)

   The first two delegate to OpenSSL through `cryptography` / chacha20poly1305_reuseable,
   the third is aiohomekit's own code on top of the pure-Python `chacha20poly1305`
   package; all three compute RFC 8439 ChaCha20-Poly1305, which is what is written
   here: the ChaCha20 block function on 32-bit words (N modulo 2^32), the keystream
   XOR with initial block counter 1, the Poly1305 one-time key = first 32 bytes of
   block 0, Poly1305 over  aad ++ pad16 ++ ct ++ pad16 ++ LE64|aad| ++ LE64|ct|.

   Totalisation, stated so that no theorem is true for the wrong reason: the real
   classes accept only 32-byte keys (assert) and 12-byte nonces (ValueError); the model
   reads key/nonce words with default 0 and is defined for every length.  The
   correspondence runs only 32/12-byte keys and nonces (plus the nonce-length guard of
   PartialTag.open, which is modelled: [PBadNonce]).  Elements of a byte string that are
   not < 256 never reach the real code; the algebraic theorems hold for them as well. *)
From Coq Require Import List NArith Arith Bool Lia.
From AHK Require Import Lib.ByteStr.
Import ListNotations.
Local Open Scope N_scope.

(* ------------------------------------------------------------------ 32-bit words *)
Definition two32 : N := 4294967296.
Definition w32 (x : N) : N := x mod two32.
Definition add32 (a b : N) : N := w32 (a + b).
Definition rotl32 (x k : N) : N := N.lor (w32 (N.shiftl x k)) (N.shiftr (w32 x) (32 - k)).

Definition st_get (s : list N) (i : nat) : N := nth i s 0.
Fixpoint st_set (s : list N) (i : nat) (v : N) : list N :=
  match s, i with
  | [], _ => []
  | _ :: r, O => v :: r
  | x :: r, S j => x :: st_set r j v
  end.

(* RFC 8439 2.1: a += b; d ^= a; d <<<= 16; c += d; b ^= c; b <<<= 12; a += b; d ^= a; d <<<= 8; c += d; b ^= c; b <<<= 7 *)
Definition quarter (s : list N) (ia ib ic id : nat) : list N :=
  let a := st_get s ia in let b := st_get s ib in let c := st_get s ic in let d := st_get s id in
  let a := add32 a b in let d := rotl32 (N.lxor d a) 16 in
  let c := add32 c d in let b := rotl32 (N.lxor b c) 12 in
  let a := add32 a b in let d := rotl32 (N.lxor d a) 8 in
  let c := add32 c d in let b := rotl32 (N.lxor b c) 7 in
  st_set (st_set (st_set (st_set s ia a) ib b) ic c) id d.

Definition double_round (s : list N) : list N :=
  let s := quarter s 0 4 8 12 in
  let s := quarter s 1 5 9 13 in
  let s := quarter s 2 6 10 14 in
  let s := quarter s 3 7 11 15 in
  let s := quarter s 0 5 10 15 in
  let s := quarter s 1 6 11 12 in
  let s := quarter s 2 7 8 13 in
  quarter s 3 4 9 14.

Fixpoint iter {A} (n : nat) (f : A -> A) (x : A) : A :=
  match n with O => x | S k => iter k f (f x) end.

(* word [i] (little endian) of a byte string, missing bytes read as 0 *)
Definition word_at (b : bytes) (i : nat) : N :=
  w32 (le_dec (firstn 4 (skipn (4 * i) b))).

Definition init_state (key : bytes) (ctr : N) (nonce : bytes) : list N :=
  [1634760805; 857760878; 2036477234; 1797285236;            (* "expa" "nd 3" "2-by" "te k" *)
   word_at key 0; word_at key 1; word_at key 2; word_at key 3;
   word_at key 4; word_at key 5; word_at key 6; word_at key 7;
   w32 ctr; word_at nonce 0; word_at nonce 1; word_at nonce 2].

Fixpoint add_states (a b : list N) : list N :=
  match a, b with
  | x :: a', y :: b' => add32 x y :: add_states a' b'
  | _, _ => []
  end.

Definition ser_words (s : list N) : bytes := flat_map (le_enc 4) s.

Definition chacha_block (key : bytes) (ctr : N) (nonce : bytes) : bytes :=
  let s0 := init_state key ctr nonce in
  ser_words (add_states (iter 10 double_round s0) s0).

(* ------------------------------------------------------------------ stream XOR *)
(* keystream bytes that run out read as 0 - they never do: [keystream_covers] *)
Fixpoint xor_with (d ks : bytes) : bytes :=
  match d with
  | [] => []
  | x :: d' => N.lxor x (hd 0 ks) :: xor_with d' (tl ks)
  end.

Fixpoint keystream (nblocks : nat) (key : bytes) (ctr : N) (nonce : bytes) : bytes :=
  match nblocks with
  | O => []
  | S k => chacha_block key ctr nonce ++ keystream k key (ctr + 1) nonce
  end.

Definition chacha_xor (key : bytes) (ctr : N) (nonce : bytes) (data : bytes) : bytes :=
  xor_with data (keystream (S (Nat.div (length data) 64)) key ctr nonce).

(* ------------------------------------------------------------------ Poly1305 *)
Definition p1305 : N := 1361129467683753853853498429727072845819.       (* 2^130 - 5 *)
Definition clamp_mask : N := 21267647620597763993911028882763415551.    (* 0x0ffffffc0ffffffc0ffffffc0fffffff *)
Definition two128 : N := 340282366920938463463374607431768211456.

Fixpoint poly_blocks (fuel : nat) (r acc : N) (msg : bytes) : N :=
  match fuel with
  | O => acc
  | S f =>
      match msg with
      | [] => acc
      | _ =>
          let blk := firstn 16 msg in
          let n := le_dec blk + 2 ^ (8 * N.of_nat (length blk)) in
          poly_blocks f r (((acc + n) * r) mod p1305) (skipn 16 msg)
      end
  end.

Definition poly1305 (otk msg : bytes) : bytes :=
  let r := N.land (le_dec (firstn 16 otk)) clamp_mask in
  let s := le_dec (firstn 16 (skipn 16 otk)) in
  le_enc 16 ((poly_blocks (length msg) r 0 msg + s) mod two128).

(* ------------------------------------------------------------------ AEAD construction *)
Definition pad16 (x : bytes) : bytes :=
  repeat 0 (Nat.modulo (16 - Nat.modulo (length x) 16) 16).

Definition mac_data (aad ct : bytes) : bytes :=
  aad ++ pad16 aad ++ ct ++ pad16 ct ++ le_enc 8 (N.of_nat (length aad)) ++ le_enc 8 (N.of_nat (length ct)).

Definition otk_of (key nonce : bytes) : bytes := firstn 32 (chacha_block key 0 nonce).

Definition cp_tag (key nonce aad ct : bytes) : bytes :=
  poly1305 (otk_of key nonce) (mac_data aad ct).

Definition cp_seal (key nonce aad pt : bytes) : bytes :=
  let ct := chacha_xor key 1 nonce pt in ct ++ cp_tag key nonce aad ct.

Fixpoint beq_bytes (x y : bytes) : bool :=
  match x, y with
  | [], [] => true
  | a :: x', b :: y' => N.eqb a b && beq_bytes x' y'
  | _, _ => false
  end.

Definition cp_open (key nonce aad box : bytes) : option bytes :=
  if (length box <? 16)%nat then None else
  let m := (length box - 16)%nat in
  let ct := firstn m box in
  if beq_bytes (skipn m box) (cp_tag key nonce aad ct) then Some (chacha_xor key 1 nonce ct) else None.

(* bytes.startswith *)
Fixpoint is_prefix (p l : bytes) : bool :=
  match p, l with
  | [], _ => true
  | a :: p', b :: l' => N.eqb a b && is_prefix p' l'
  | _ :: _, [] => false
  end.

(* ChaCha20Poly1305PartialTag.open: expected_tag = box[-4:], ciphertext = box[:-4] *)
Inductive partial_res : Type :=
| PBadNonce                       (* ValueError("Nonce must be 96 bit long") *)
| PReject                         (* returns None *)
| PPlain (p : bytes).

Definition cp_open_partial (key nonce aad box : bytes) : partial_res :=
  if negb (length nonce =? 12)%nat then PBadNonce else
  let m := (length box - 4)%nat in        (* truncated subtraction: box[:-4] of a short box is empty ... *)
  let ct := firstn m box in
  let expected := skipn m box in          (* ... and box[-4:] is the whole short box *)
  if is_prefix expected (cp_tag key nonce aad ct) then PPlain (chacha_xor key 1 nonce ct) else PReject.

(* what a sender of broadcast notifications transmits: ciphertext ++ first four tag bytes *)
Definition cp_seal_partial (key nonce aad pt : bytes) : bytes :=
  let ct := chacha_xor key 1 nonce pt in ct ++ firstn 4 (cp_tag key nonce aad ct).
