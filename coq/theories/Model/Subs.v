(* C12 - executable model of the subscription / listener machinery of IpPairing.

   Anchors (aiohomekit/controller):
     abstract.py   AbstractPairing.subscriptions / listeners / dispatcher_connect /
                   _callback_listeners (try/except Exception per listener) /
                   subscribe (set union) / unsubscribe (set difference)
     ip/pairing.py IpPairing.subscribe / unsubscribe / _update_subscriptions /
                   connection_made(secure) / event_received / format_characteristic_list
     ip/connection.py HomeKitConnection.event_received (empty / non-JSON body ignored),
                   put_json (204 -> {}, unparsable body -> close + AccessoryDisconnectedError),
                   request (HTTP 4xx -> HttpErrorResponse, a subclass of AccessoryDisconnectedError)

   A labelled transition system (DESIGN.md 3.3): [step] consumes one external event and
   runs the pairing to quiescence, emitting the observable outputs.  Reconnection *policy*
   (back-off, hosts) is C10/C11's business: here [ConnUp] simply means "the connector
   established a new secure session and is calling owner.connection_made(True)".

   Definitions only; lemmas are in Proofs/Subs*.v. *)
From Coq Require Import List NArith ZArith Bool.
Import ListNotations.

(* ---------------------------------------------------------------- identifiers *)
Definition cid := (N * N)%type.            (* (aid, iid) *)
Definition lid := N.                       (* listener identity (one Python callable) *)

Definition cid_eqb (a b : cid) : bool := N.eqb (fst a) (fst b) && N.eqb (snd a) (snd b).
Definition mem (c : cid) (l : list cid) : bool := existsb (cid_eqb c) l.
Definition memN (a : N) (l : list N) : bool := existsb (N.eqb a) l.

(* Python set operations on duplicate-free lists (order = first insertion; never observed) *)
Fixpoint union (s cs : list cid) : list cid :=
  match cs with
  | [] => s
  | c :: t => union (if mem c s then s else s ++ [c]) t
  end.
Definition diff (s cs : list cid) : list cid := filter (fun c => negb (mem c cs)) s.

(* ---------------------------------------------------------------- the accessory's answers *)
(* How the simulated accessory answers a PUT /characteristics that carries ids of accessory
   [aid] (one request never mixes aids: _update_subscriptions groups by aid):
     ROk        204 No Content
     RStatus    207 Multi-Status with the given (aid,iid,status) rows
     RDisc      the request ends with AccessoryDisconnectedError and the session is gone:
                peer FIN / RST while it is pending, no answer within 30 s, or an unparsable
                body (put_json closes the transport itself)
     RHttp4xx   an HTTP 4xx answer: request() raises HttpErrorResponse, which IS an
                AccessoryDisconnectedError subclass, but the session stays open *)
Inductive reply :=
| ROk
| RStatus (rows : list (cid * Z))
| RDisc
| RHttp4xx.

Definition script := list (N * reply).     (* keyed by aid; default ROk *)
Fixpoint reply_for (a : N) (rs : script) : reply :=
  match rs with
  | [] => ROk
  | (a', r) :: t => if N.eqb a a' then r else reply_for a t
  end.

(* ---------------------------------------------------------------- events *)
Inductive body :=
| BEmpty                                    (* EVENT with an empty body *)
| BNonJson                                  (* EVENT whose body is not JSON *)
| BRows (rows : list (cid * Z)).            (* {"characteristics":[{"aid","iid","value"}...]} *)

Inductive event :=
| Subscribe (cs : list cid) (rs : script)
| Unsubscribe (cs : list cid) (rs : script)
| AddL (l : lid)                            (* dispatcher_connect(callback_l) *)
| DelL (l : lid)                            (* the callable returned by dispatcher_connect *)
| ConnUp (rs : script)                      (* new secure session; rs answers the re-subscribe *)
| ConnDown                                  (* peer FIN / RST while idle *)
| EventMsg (b : body).

(* formatted event = what format_characteristic_list returns: dict keyed by (aid,iid);
   insertion-ordered, a later row for the same key replaces the value *)
Definition fevent := list (cid * Z).

Fixpoint upsert (k : cid) (v : Z) (m : fevent) : fevent :=
  match m with
  | [] => [(k, v)]
  | (k', v') :: t => if cid_eqb k k' then (k', v) :: t else (k', v') :: upsert k v t
  end.
Definition format (rows : list (cid * Z)) : fevent :=
  fold_left (fun m kv => upsert (fst kv) (snd kv) m) rows [].

Fixpoint lookup (k : cid) (m : list (cid * Z)) : option Z :=
  match m with
  | [] => None
  | (k', v) :: t => if cid_eqb k k' then Some v else lookup k t
  end.

(* ---------------------------------------------------------------- outputs *)
Inductive putres := PutOk | PutStatus (rows : list (cid * Z)) | PutDisc | Put4xx.
Inductive retclass :=
| RetNone                                   (* returned None (polling fallback) *)
| RetDict                                   (* returned a dict *)
| RetRaised.                                (* raised an AccessoryDisconnectedError(-subclass) *)

Inductive out :=
| OSession                                  (* a new secure session was established *)
| OPut (ev : bool) (ids : list cid) (r : putres)   (* one PUT on the current session *)
| OCall (l : lid) (e : fevent)              (* listener l was called with e *)
| ORaised (l : lid)                         (* ... and raised; logged and swallowed *)
| OLost                                     (* the current session ended *)
| ORet (r : retclass).                      (* the API call of this step completed *)

(* ---------------------------------------------------------------- _update_subscriptions *)
Fixpoint dedupN (l seen : list N) : list N :=
  match l with
  | [] => []
  | a :: t => if memN a seen then dedupN t seen else a :: dedupN t (a :: seen)
  end.
Definition aids (ids : list cid) : list N := dedupN (map fst ids) [].
Definition group (a : N) (ids : list cid) : list cid := filter (fun c => N.eqb (fst c) a) ids.
Definition groups (ids : list cid) : list (N * list cid) := map (fun a => (a, group a ids)) (aids ids).

Inductive ures :=
| UDone (status : list cid)                 (* ids that appeared in a status row *)
| UFail (lost : bool).                      (* AccessoryDisconnectedError; lost = session gone *)

Fixpoint send (ev : bool) (rs : script) (gs : list (N * list cid)) (acc : list cid) : list out * ures :=
  match gs with
  | [] => ([], UDone acc)
  | (a, g) :: t =>
      match reply_for a rs with
      | ROk => let '(o, r) := send ev rs t acc in (OPut ev g PutOk :: o, r)
      | RStatus rows =>
          let '(o, r) := send ev rs t (acc ++ map fst rows) in (OPut ev g (PutStatus rows) :: o, r)
      | RDisc => ([OPut ev g PutDisc], UFail true)
      | RHttp4xx => ([OPut ev g Put4xx], UFail false)
      end
  end.
Definition update (ev : bool) (rs : script) (ids : list cid) : list out * ures :=
  send ev rs (groups ids) [].

(* ---------------------------------------------------------------- state *)
Record st := mkst {
  subs : list cid;      (* self.subscriptions *)
  lst : list lid;       (* self.listeners, registration order *)
  sup : bool;           (* self.supports_subscribe *)
  conn : bool           (* connection.is_connected (secure session up) *)
}.
Definition init : st := mkst [] [] true false.

Definition lost_out (lost : bool) : list out := if lost then [OLost] else [].

(* ---------------------------------------------------------------- _callback_listeners *)
Inductive call_result := Returned | Raised.
Section Machine.
  (* The behaviour of the registered callables (not of the library):
     raises l e   listener l raises (an Exception subclass) when called with e;
     acts l e     what l does to the listener registry from inside that call:
                  (true, l') = pairing.dispatcher_connect(callback l'), (false, l') = calling the
                  stop function of l' (l' = l: a one-shot listener removing itself) *)
  Variable raises : lid -> fevent -> bool.
  Variable acts : lid -> fevent -> list (bool * lid).

  Definition call (l : lid) (e : fevent) : call_result := if raises l e then Raised else Returned.

  (* REPAIRED behaviour (fixes/C12-listener-set-snapshot.patch):
       for listener in tuple(self.listeners): try: listener(event) except Exception: logger.exception
     every listener registered when the event arrives is called once, whatever the listeners do
     to the registry meanwhile.  (Unrepaired, a listener that changes the size of the set makes
     the loop raise "RuntimeError: Set changed size during iteration" into data_received /
     the connector.) *)
  Fixpoint notify (ls : list lid) (e : fevent) : list out :=
    match ls with
    | [] => []
    | l :: t =>
        OCall l e ::
        match call l e with
        | Raised => ORaised l :: notify t e
        | Returned => notify t e
        end
    end.

  Definition add_l (l : lid) (ls : list lid) : list lid := if memN l ls then ls else ls ++ [l].
  Definition del_l (l : lid) (ls : list lid) : list lid := filter (fun x => negb (N.eqb x l)) ls.
  Definition apply_acts (a : list (bool * lid)) (reg : list lid) : list lid :=
    fold_left (fun (r : list lid) (x : bool * lid) => if fst x then add_l (snd x) r else del_l (snd x) r) a reg.
  (* the registry after the snapshot [snap] has been called with e *)
  Definition registry_after (snap : list lid) (e : fevent) (reg : list lid) : list lid :=
    fold_left (fun (r : list lid) (l : lid) => apply_acts (acts l e) r) snap reg.
  Definition reg_after (s : st) (e : fevent) : list lid := registry_after (lst s) e (lst s).

  Definition step (s : st) (e : event) : st * list out :=
    match e with
    | Subscribe cs rs =>
        let sb := union (subs s) cs in
        if negb (sup s) then (mkst sb (lst s) (sup s) (conn s), [ORet RetNone])
        else if negb (conn s) then (mkst sb (lst s) (sup s) (conn s), [ORet RetDict])
        else match update true rs cs with
             | (o, UDone _) => (mkst sb (lst s) true true, o ++ [ORet RetDict])
             | (o, UFail lost) =>
                 (mkst sb (lst s) false (negb lost), o ++ lost_out lost ++ [ORet RetDict])
             end
    | Unsubscribe cs rs =>
        if negb (conn s) then (mkst (diff (subs s) cs) (lst s) (sup s) (conn s), [ORet RetDict])
        else match update false rs cs with
             | (o, UDone status) =>
                 (mkst (diff (subs s) (diff cs status)) (lst s) (sup s) true, o ++ [ORet RetDict])
             | (o, UFail lost) =>
                 (mkst (subs s) (lst s) (sup s) (negb lost), o ++ lost_out lost ++ [ORet RetRaised])
             end
    | AddL l => (mkst (subs s) (add_l l (lst s)) (sup s) (conn s), [])
    | DelL l => (mkst (subs s) (del_l l (lst s)) (sup s) (conn s), [])
    | ConnUp rs =>
        if conn s then (s, [])
        else
          let o0 := OSession :: notify (lst s) [] in
          let ls := reg_after s [] in
          match subs s with
          | [] => (mkst (subs s) ls (sup s) true, o0)
          | _ :: _ =>
              if negb (sup s) then (mkst (subs s) ls (sup s) true, o0)
              else match update true rs (subs s) with
                   | (o, UDone _) => (mkst (subs s) ls true true, o0 ++ o)
                   | (o, UFail lost) =>
                       (mkst (subs s) ls false (negb lost), o0 ++ o ++ lost_out lost)
                   end
          end
    | ConnDown => if conn s then (mkst (subs s) (lst s) (sup s) false, [OLost]) else (s, [])
    | EventMsg b =>
        if conn s then
          match b with
          | BRows rows =>
              (mkst (subs s) (reg_after s (format rows)) (sup s) (conn s), notify (lst s) (format rows))
          | _ => (s, [])
          end
        else (s, [])
    end.

  Fixpoint run_from (s : st) (h : list event) : st * list out :=
    match h with
    | [] => (s, [])
    | e :: t =>
        let '(s1, o1) := step s e in
        let '(s2, o2) := run_from s1 t in
        (s2, o1 ++ o2)
    end.
  Definition run (h : list event) : st * list out := run_from init h.

  (* per-step outputs, as the correspondence driver prints them *)
  Fixpoint trace_from (s : st) (h : list event) : list (list out) * st :=
    match h with
    | [] => ([], s)
    | e :: t =>
        let '(s1, o1) := step s e in
        let '(os, s2) := trace_from s1 t in
        (o1 :: os, s2)
    end.
End Machine.

(* ---------------------------------------------------------------- observation functions *)
Definition put_ids (ev : bool) (o : list out) : list cid :=
  flat_map (fun x => match x with
                     | OPut ev' ids _ => if Bool.eqb ev ev' then ids else []
                     | _ => []
                     end) o.
Definition calls_of (l : lid) (o : list out) : list fevent :=
  flat_map (fun x => match x with
                     | OCall l' e => if N.eqb l l' then [e] else []
                     | _ => []
                     end) o.
Definition is_raised (x : out) : bool := match x with ORaised _ => true | _ => false end.
Definition strip (o : list out) : list out := filter (fun x => negb (is_raised x)) o.
Definition cutoff (x : out) : bool :=
  match x with
  | OPut true _ PutDisc | OPut true _ Put4xx => true
  | _ => false
  end.

(* what one message delivers to a registered listener *)
Definition deliver (b : body) : list fevent :=
  match b with BRows rows => [format rows] | _ => [] end.

(* ---------------------------------------------------------------- specification vocabulary *)
(* what a listener registered in state s must be told when event e happens *)
Definition notif (s : st) (e : event) : list fevent :=
  match e with
  | ConnUp _ => if conn s then [] else [[]]          (* the empty "connection is back" event *)
  | EventMsg b => if conn s then deliver b else []
  | _ => []
  end.

Section Spec.
  Variable raises : lid -> fevent -> bool.
  Variable acts : lid -> fevent -> list (bool * lid).

  (* the call log listener l must have after history h started in s *)
  Fixpoint expected_log (l : lid) (s : st) (h : list event) : list fevent :=
    match h with
    | [] => []
    | e :: t => (if memN l (lst s) then notif s e else []) ++ expected_log l (fst (step raises acts s e)) t
    end.

  Inductive reachable : st -> Prop :=
  | reach_init : reachable init
  | reach_step : forall s e, reachable s -> reachable (fst (step raises acts s e)).
End Spec.

(* listeners that leave the registry alone *)
Definition quiet (acts : lid -> fevent -> list (bool * lid)) : Prop := forall l e, acts l e = [].

(* the last value a row list gives to a key *)
Definition last_value (k : cid) (rows : list (cid * Z)) : option Z := lookup k (rev rows).
