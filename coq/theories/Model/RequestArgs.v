(* C09 - the ARGUMENT of the pairing API calls as an iterable object, and the passes the
   code makes over it.

   The pairing API is declared over Iterable[...] (abstract.py: get_characteristics,
   subscribe, unsubscribe; ip/pairing.py: put_characteristics).  A Python iterable is
   either re-iterable (list, tuple, set, dict view, deque, any class whose __iter__
   starts afresh) or ONE-SHOT (generator, map/zip/filter object, iter(...)): the first
   complete walk yields the items, every later walk yields nothing.  The request that
   is written depends on HOW MANY walks the code makes before the walk that builds the
   payload - a dimension the list-only model (api_* in Model/Request.v) does not have.

   Anchors (aiohomekit/controller/ip/pairing.py):
     get_characteristics   one walk: the argument itself if it is a set, else set(argument)
     put_characteristics   one walk: the for loop that builds char_payload
     subscribe             walk 1: set(characteristics) for the base class book-keeping;
                           walk 2: groupby(characteristics) in _update_subscriptions
     unsubscribe           (connected) walk 1: char_set = set(characteristics);
                           walk 2: groupby(characteristics) in _update_subscriptions *)
From Coq Require Import List NArith ZArith Bool.
From AHK Require Import Lib.Res Lib.ByteStr Model.Request.
Import ListNotations.

Inductive akind := Reiterable | OneShot.

Record iterable (A : Type) := mkIter { it_kind : akind; it_items : list A }.
Arguments mkIter {A}.
Arguments it_kind {A}.
Arguments it_items {A}.

(* one complete walk: what it yields, and the object afterwards *)
Definition walk {A : Type} (it : iterable A) : list A * iterable A :=
  (it_items it,
   match it_kind it with
   | Reiterable => it
   | OneShot => mkIter OneShot []
   end).

(* [n] complete walks made before the one whose items are used *)
Fixpoint after_walks {A : Type} (n : nat) (it : iterable A) : iterable A :=
  match n with
  | O => it
  | S k => after_walks k (snd (walk it))
  end.

(* the requests each API call writes (connected, accessories already listed) *)
Definition pairing_get_characteristics (host : bytes) (arg : iterable (Z * Z)) : list req :=
  [api_get_characteristics host (fst (walk arg))].

Definition pairing_put_characteristics (host : bytes) (arg : iterable (Z * Z * json)) : list req :=
  [api_put_characteristics host (fst (walk arg))].

Definition pairing_update_subscriptions (host : bytes) (ev : bool) (arg : iterable (Z * Z)) : list req :=
  let arg1 := snd (walk arg) in                   (* set(characteristics) *)
  api_update_subscriptions host ev (fst (walk arg1)).   (* groupby(characteristics, ...) *)

(* what the caller ASKED for: the items of the argument as it was when the call was made *)
Definition asked {A : Type} (arg : iterable A) : list A := it_items arg.
