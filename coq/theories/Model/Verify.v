(* Symbolic model of aiohomekit/protocol/__init__.py::get_session_keys (incl.
   resume_m1 / resume_m3), of the transport glue that turns the returned
   `derive` closure into session keys (controller/ip/connection.py,
   controller/ble/pairing.py, controller/coap/connection.py), and of a
   specification accessory (HAP R2 5.7 pair-verify, 7.3.7 pair-resume).
   The generator is modelled as the step functions it is:
       pv_m1                      first request yielded
       pv_on_m2  reply            Fail | Send M3 (state = shared secret) | Done (resume)
       pv_on_m4  reply            Fail | Done
   Replies are decoded TLV item lists (wire order).  Definitions only. *)
From Coq Require Import List NArith Arith Bool.
From AHK Require Import Lib.Res Lib.ByteStr Model.Tlv Model.Sym.
Import ListNotations.

(* pairing record handed to get_session_keys *)
Record pairing := {
  pd_acc_id : bytes;      (* AccessoryPairingID (utf-8 bytes of the stored string) *)
  pd_acc_ltpk : msg;      (* AccessoryLTPK (hex decoded) *)
  pd_ios_id : bytes;      (* iOSPairingId *)
  pd_ios_ltsk : N         (* iOSDeviceLTSK: name of the 32-byte Ed25519 seed *)
}.

(* session_id and the `derive` closure kept from the previous session:
   derive(salt, info, n) = HKDF(rs_secret, salt, info, n) *)
Record resume_st := { rs_sid : msg; rs_secret : msg }.

Inductive pv_step :=
| PFail (f : fail)
| PSend (req : list sitem) (shared : msg)
| PDone (sid : msg) (secret : msg)       (* StopIteration value: (session_id, derive) *)
| PUnsupported.

(* ---- labels ---- *)
Definition L_pve_salt := str "Pair-Verify-Encrypt-Salt".
Definition L_pve_info := str "Pair-Verify-Encrypt-Info".
Definition L_sid_salt := str "Pair-Verify-ResumeSessionID-Salt".
Definition L_sid_info := str "Pair-Verify-ResumeSessionID-Info".
Definition L_res_req := str "Pair-Resume-Request-Info".
Definition L_res_resp := str "Pair-Resume-Response-Info".
Definition L_res_secret := str "Pair-Resume-Shared-Secret-Info".
Definition L_ctl_salt := str "Control-Salt".
Definition L_ctl_write := str "Control-Write-Encryption-Key".
Definition L_ctl_read := str "Control-Read-Encryption-Key".
Definition L_evt_salt := str "Event-Salt".
Definition L_evt_read := str "Event-Read-Encryption-Key".
Definition N_pv02 := nonce "PV-Msg02".
Definition N_pv03 := nonce "PV-Msg03".
Definition N_pr01 := nonce "PR-Msg01".
Definition N_pr02 := nonce "PR-Msg02".

(* TLV types *)
Definition T_method := 0%N.
Definition T_id := 1%N.
Definition T_pk := 3%N.
Definition T_enc := 5%N.
Definition T_state := 6%N.
Definition T_error := 7%N.
Definition T_sig := 10%N.
Definition T_sid := 14%N.

(* expectation lists yielded with the requests (M2: repaired, with Error) *)
Definition exp_m2 : list N := [T_state; T_error; T_pk; T_enc].
Definition exp_m4 : list N := [T_state; T_error].

Definition pv_key (shared : msg) : msg := s_hkdf shared L_pve_salt L_pve_info 32.
Definition pv_sid (shared : msg) : msg := s_hkdf shared L_sid_salt L_sid_info 8.

(* ---- M1 ---- *)
Definition m1_plain (eph : N) : list sitem := [(T_state, [AByte 1]); (T_pk, s_pub eph)].

Definition resume_m1 (eph : N) (r : resume_st) : list sitem :=
  [(T_state, [AByte 1]); (T_method, [AByte 6]); (T_pk, s_pub eph); (T_sid, rs_sid r);
   (T_enc, s_seal (s_hkdf (rs_secret r) (s_pub eph ++ rs_sid r) L_res_req 32) N_pr01 [] [])].

(* `if session_id and derive` *)
Definition pv_m1 (eph : N) (rs : option resume_st) : list sitem :=
  match rs with
  | Some r => if is_empty (rs_sid r) then m1_plain eph else resume_m1 eph r
  | None => m1_plain eph
  end.

(* ---- resume_m3: Some (session_id', new secret) or None (fall through) ---- *)
Definition resume_m3 (eph : N) (r : resume_st) (d : list sitem) : option (msg * msg) :=
  match slookup T_method d with
  | None => None
  | Some meth =>
      if is_empty meth then None else
      match as_bytes meth with
      | None => None              (* an opaque value is not the integer 6 *)
      | Some mb =>
          if negb (N.eqb (le_dec mb) 6) then None else
          match slookup T_sid d with
          | None => None
          | Some sid' =>
              if is_empty sid' then None else
              match slookup T_enc d with
              | None => None
              | Some tag =>
                  if is_empty tag then None else
                  match s_open (s_hkdf (rs_secret r) (s_pub eph ++ sid') L_res_resp 32) N_pr02 [] tag with
                  | None => None
                  | Some pt =>
                      if negb (is_empty pt) then None
                      else Some (sid', s_hkdf (rs_secret r) (s_pub eph ++ sid') L_res_secret 32)
                  end
              end
          end
      end
  end.

(* ---- M2 -> M3 ---- *)
Definition m3_req (pd : pairing) (eph : N) (P shared : msg) : list sitem :=
  [(T_state, [AByte 3]);
   (T_enc, s_seal (pv_key shared) N_pv03 []
             (senc [(T_id, lit (pd_ios_id pd));
                    (T_sig, s_sign (pd_ios_ltsk pd) (s_pub eph ++ lit (pd_ios_id pd) ++ P))]))].

Definition pv_on_m2 (tr : transport) (pd : pairing) (eph : N) (rs : option resume_st)
           (reply : list sitem) : pv_step :=
  let d := prep tr exp_m2 reply in
  match state_step d 2 with
  | Some f => PFail f
  | None =>
      match (match rs with Some r => resume_m3 eph r d | None => None end) with
      | Some (sid', secret') => PDone sid' secret'
      | None =>
          match slookup T_pk d with
          | None => PFail FInvalid
          | Some P =>
              match slookup T_enc d with
              | None => PFail FInvalid
              | Some enc =>
                  if negb (N.eqb (mlen P) 32) then PFail FCrash     (* X25519PublicKey.from_public_bytes *)
                  else
                    let shared := s_dh eph P in
                    match s_open (pv_key shared) N_pv02 [] enc with
                    | None => PFail FAuthTag
                    | Some sub =>
                        match sdec sub with
                        | SUnsupported => PUnsupported
                        | SParseErr => PFail FParse
                        | SItems items =>
                            let d1 := smerge items in
                            match slookup T_id d1 with
                            | None => PFail FInvalid
                            | Some idm =>
                                match slookup T_sig d1 with
                                | None => PFail FInvalid
                                | Some sg =>
                                    match as_bytes idm with
                                    | None => PFail FWrongId
                                    | Some idb =>
                                        if negb (bytes_eqb idb (pd_acc_id pd)) then PFail FWrongId
                                        else if negb (N.eqb (mlen (pd_acc_ltpk pd)) 32) then PFail FCrash
                                        else if negb (s_verify (pd_acc_ltpk pd) sg (P ++ lit idb ++ s_pub eph))
                                             then PFail FSig
                                        else PSend (m3_req pd eph P shared) shared
                                    end
                                end
                            end
                        end
                    end
              end
          end
      end
  end.

(* ---- M4 ---- *)
Definition pv_on_m4 (tr : transport) (shared : msg) (reply : list sitem) : pv_step :=
  let d := prep tr exp_m4 reply in
  match state_step d 4 with
  | Some f => PFail f
  | None => PDone (pv_sid shared) shared
  end.

(* the whole generator against a scripted peer *)
Definition pv_run (tr : transport) (pd : pairing) (eph : N) (rs : option resume_st)
           (m2 m4 : list sitem) : pv_step :=
  match pv_on_m2 tr pd eph rs m2 with
  | PSend _ shared => pv_on_m4 tr shared m4
  | x => x
  end.

(* ---- transport glue: derive -> session keys ---- *)
Record keys := { k_c2a : msg; k_a2c : msg; k_evt : option msg }.

(* ip/connection.py: c2a = Control-Write, a2c = Control-Read *)
Definition glue_ip (secret : msg) : keys :=
  {| k_c2a := s_hkdf secret L_ctl_salt L_ctl_write 32;
     k_a2c := s_hkdf secret L_ctl_salt L_ctl_read 32;
     k_evt := None |}.
(* ble/pairing.py: _encryption_key = Control-Write, _decryption_key = Control-Read *)
Definition glue_ble (secret : msg) : keys :=
  {| k_c2a := s_hkdf secret L_ctl_salt L_ctl_write 32;
     k_a2c := s_hkdf secret L_ctl_salt L_ctl_read 32;
     k_evt := None |}.
(* coap/connection.py: send = Control-Write, recv = Control-Read, event = Event-Read *)
Definition glue_coap (secret : msg) : keys :=
  {| k_c2a := s_hkdf secret L_ctl_salt L_ctl_write 32;
     k_a2c := s_hkdf secret L_ctl_salt L_ctl_read 32;
     k_evt := Some (s_hkdf secret L_evt_salt L_evt_read 32) |}.
Definition glue (tr : transport) : msg -> keys :=
  match tr with TIP => glue_ip | TBLE => glue_ble | TCOAP => glue_coap end.

Definition keys_of (tr : transport) (r : pv_step) : option keys :=
  match r with PDone _ secret => Some (glue tr secret) | _ => None end.

(* ---- specification accessory ---- *)
Record acc := {
  ac_id : bytes;               (* its pairing identifier *)
  ac_ltsk : N;                 (* its Ed25519 long-term secret *)
  ac_eph : N;                  (* the X25519 secret it uses in this exchange *)
  ac_ctrl_id : bytes;          (* the paired controller: identifier ... *)
  ac_ctrl_ltpk : msg;          (* ... and long-term public key *)
  ac_session : option resume_st;   (* a resumable session it remembers *)
  ac_new_sid : msg             (* the session id it hands out when resuming *)
}.

(* accessory state after M1 *)
Inductive acc_st :=
| AVerify (C : msg) (shared : msg)     (* controller public key, shared secret *)
| AResumed (sid : msg) (secret : msg)  (* session established by resume *)
| ARejected.

Definition acc_try_resume (a : acc) (d : list sitem) (C : msg) : option (list sitem * acc_st) :=
  match ac_session a, slookup T_method d, slookup T_sid d, slookup T_enc d with
  | Some s, Some meth, Some sid, Some tag =>
      if msg_eqb meth [AByte 6] && msg_eqb sid (rs_sid s) then
        match s_open (s_hkdf (rs_secret s) (C ++ sid) L_res_req 32) N_pr01 [] tag with
        | Some pt =>
            if is_empty pt then
              let nsid := ac_new_sid a in
              Some ([(T_state, [AByte 2]); (T_method, [AByte 6]); (T_sid, nsid);
                     (T_enc, s_seal (s_hkdf (rs_secret s) (C ++ nsid) L_res_resp 32) N_pr02 [] [])],
                    AResumed nsid (s_hkdf (rs_secret s) (C ++ nsid) L_res_secret 32))
            else None
        | None => None
        end
      else None
  | _, _, _, _ => None
  end.

Definition acc_m2 (a : acc) (m1 : list sitem) : list sitem * acc_st :=
  let d := smerge m1 in
  match slookup T_pk d with
  | None => ([(T_state, [AByte 2]); (T_error, [AByte 2])], ARejected)
  | Some C =>
      match acc_try_resume a d C with
      | Some r => r
      | None =>
          let shared := s_dh (ac_eph a) C in
          let sg := s_sign (ac_ltsk a) (s_pub (ac_eph a) ++ lit (ac_id a) ++ C) in
          ([(T_state, [AByte 2]); (T_pk, s_pub (ac_eph a));
            (T_enc, s_seal (pv_key shared) N_pv02 [] (senc [(T_id, lit (ac_id a)); (T_sig, sg)]))],
           AVerify C shared)
      end
  end.

Definition acc_reject4 : list sitem := [(T_state, [AByte 4]); (T_error, [AByte 2])].

(* reply to M3, verdict on the controller's proof, session secret when accepted *)
Definition acc_m4 (a : acc) (st : acc_st) (m3 : list sitem) : list sitem * bool * option msg :=
  match st with
  | AVerify C shared =>
      let d := smerge m3 in
      match slookup T_enc d with
      | None => (acc_reject4, false, None)
      | Some enc =>
          match s_open (pv_key shared) N_pv03 [] enc with
          | None => (acc_reject4, false, None)
          | Some sub =>
              match sdec sub with
              | SItems items =>
                  let d1 := smerge items in
                  match slookup T_id d1, slookup T_sig d1 with
                  | Some idm, Some sg =>
                      if msg_eqb idm (lit (ac_ctrl_id a))
                         && s_verify (ac_ctrl_ltpk a) sg (C ++ lit (ac_ctrl_id a) ++ s_pub (ac_eph a))
                      then ([(T_state, [AByte 4])], true, Some shared)
                      else (acc_reject4, false, None)
                  | _, _ => (acc_reject4, false, None)
                  end
              | _ => (acc_reject4, false, None)
              end
          end
      end
  | _ => (acc_reject4, false, None)
  end.

(* the accessory's own keys, HAP R2 6.5.2: AccessoryToController = Control-Read,
   ControllerToAccessory = Control-Write; CoAP event key = Event-Read *)
Definition acc_keys (tr : transport) (secret : msg) : keys :=
  {| k_c2a := s_hkdf secret (str "Control-Salt") (str "Control-Write-Encryption-Key") 32;
     k_a2c := s_hkdf secret (str "Control-Salt") (str "Control-Read-Encryption-Key") 32;
     k_evt := match tr with
              | TCOAP => Some (s_hkdf secret (str "Event-Salt") (str "Event-Read-Encryption-Key") 32)
              | _ => None
              end |}.

(* ---- one whole exchange against the specification accessory, with the
   adversary optionally substituting its own M2 / M4 (used by the driver) ---- *)
Record pv_trace := {
  tr_m1 : list sitem;
  tr_m2_spec : list sitem;          (* what the spec accessory answered *)
  tr_result : pv_step;
  tr_m3_accepted : option bool;     (* accessory's verdict on M3, when one was sent *)
  tr_keys_agree : option bool       (* controller keys = accessory keys, when Done *)
}.

Definition keys_eqb (a b : keys) : bool :=
  msg_eqb (k_c2a a) (k_c2a b) && msg_eqb (k_a2c a) (k_a2c b) &&
  match k_evt a, k_evt b with
  | Some x, Some y => msg_eqb x y
  | None, None => true
  | _, _ => false
  end.

Definition pv_exchange (tr : transport) (pd : pairing) (eph : N) (rs : option resume_st)
           (a : acc) (m2x m4x : option (list sitem)) : pv_trace :=
  let m1 := pv_m1 eph rs in
  let '(m2s, ast) := acc_m2 a m1 in
  let m2 := match m2x with Some x => x | None => m2s end in
  match pv_on_m2 tr pd eph rs m2 with
  | PSend m3 shared =>
      let '(m4s, ok, asec) := acc_m4 a ast m3 in
      let m4 := match m4x with Some x => x | None => m4s end in
      let r := pv_on_m4 tr shared m4 in
      {| tr_m1 := m1; tr_m2_spec := m2s; tr_result := r; tr_m3_accepted := Some ok;
         tr_keys_agree :=
           match r, asec with
           | PDone _ sec, Some s => Some (keys_eqb (glue tr sec) (acc_keys tr s))
           | PDone _ _, None => Some false
           | _, _ => None
           end |}
  | PDone sid sec =>
      {| tr_m1 := m1; tr_m2_spec := m2s; tr_result := PDone sid sec; tr_m3_accepted := None;
         tr_keys_agree :=
           match ast with
           | AResumed sid' s => Some (msg_eqb sid sid' && keys_eqb (glue tr sec) (acc_keys tr s))
           | _ => Some false
           end |}
  | r => {| tr_m1 := m1; tr_m2_spec := m2s; tr_result := r; tr_m3_accepted := None; tr_keys_agree := None |}
  end.

(* ---- specification side: what a successful run must have seen ---- *)
Definition state_ok (d : list sitem) (n : N) : Prop :=
  slookup T_state d = None \/ slookup T_state d = Some [AByte n].
Definition no_error (d : list sitem) : Prop := slookup T_error d = None.

(* full pair-verify: M2 carried a public key P and an AEAD box under
   HKDF(DH(eph,P)) / PV-Msg02 whose sub-TLV names the stored identifier and a
   signature by the STORED long-term key over P ‖ id ‖ pub(eph) *)
Definition pv_full_auth (tr : transport) (pd : pairing) (eph : N)
           (m2 m4 : list sitem) (sid k : msg) : Prop :=
  let d2 := prep tr exp_m2 m2 in
  let d4 := prep tr exp_m4 m4 in
  exists P sub items L,
    slookup T_pk d2 = Some P /\ mlen P = 32%N /\
    slookup T_enc d2 = Some (s_seal (pv_key (s_dh eph P)) N_pv02 [] sub) /\
    sdec sub = SItems items /\
    slookup T_id (smerge items) = Some (lit (pd_acc_id pd)) /\
    pd_acc_ltpk pd = s_pub L /\
    slookup T_sig (smerge items) = Some (s_sign L (P ++ lit (pd_acc_id pd) ++ s_pub eph)) /\
    state_ok d2 2 /\ no_error d2 /\ state_ok d4 4 /\ no_error d4 /\
    k = s_dh eph P /\ sid = pv_sid k.

(* resume: the tag opens, to the empty string, under the key derived from the
   PREVIOUS session's secret, this exchange's public key and the new session id *)
Definition pv_resume_auth (tr : transport) (eph : N) (rs : option resume_st)
           (m2 : list sitem) (sid k : msg) : Prop :=
  let d2 := prep tr exp_m2 m2 in
  exists r meth mb pt,
    rs = Some r /\ state_ok d2 2 /\ no_error d2 /\
    slookup T_method d2 = Some meth /\ as_bytes meth = Some mb /\ le_dec mb = 6%N /\
    slookup T_sid d2 = Some sid /\ is_empty sid = false /\
    slookup T_enc d2 = Some (s_seal (s_hkdf (rs_secret r) (s_pub eph ++ sid) L_res_resp 32) N_pr02 [] pt) /\
    mlen pt = 0%N /\
    k = s_hkdf (rs_secret r) (s_pub eph ++ sid) L_res_secret 32.

(* the accessory is the one the pairing record describes, and knows the controller *)
Definition acc_matches (a : acc) (pd : pairing) : Prop :=
  ac_id a = pd_acc_id pd /\ pd_acc_ltpk pd = s_pub (ac_ltsk a) /\
  ac_ctrl_id a = pd_ios_id pd /\ ac_ctrl_ltpk a = s_pub (pd_ios_ltsk pd).

(* the honest M2 shape with every component made explicit *)
Definition m2_shape (st P key nn aad idm sg : msg) : list sitem :=
  [(T_state, st); (T_pk, P); (T_enc, s_seal key nn aad (senc [(T_id, idm); (T_sig, sg)]))].
