(* C02 - small correspondence entry points that do not need the BigN evaluator
   (SHA-512, to_byte_array, pad_left).  Byte strings travel as
   (length, big-endian value); 999 (not a byte) marks "the code raises". *)
From Coq Require Import List NArith ZArith.
From AHK Require Import Lib.Res Lib.ByteStr Model.Sha512 Model.Srp.
Import ListNotations.
Local Open Scope N_scope.

(* input decoding for the generated case files: the same byte string as
   [bytes_of len n] = [be_enc len n], computed in one pass over the bits of [n]
   (be_enc divides by 256 per byte, quadratic on 384-byte inputs).  Harness glue,
   not used by any theorem; Proofs/SrpBig.v checks it against [bytes_of] on samples. *)
Fixpoint pos_bits (p : positive) : list bool :=
  match p with
  | xH => [true]
  | xO q => false :: pos_bits q
  | xI q => true :: pos_bits q
  end.
Definition bitw (b : bool) (w : N) : N := if b then w else 0.
Fixpoint pack8 (l : list bool) : list N :=
  match l with
  | b0 :: b1 :: b2 :: b3 :: b4 :: b5 :: b6 :: b7 :: r =>
      (bitw b0 1 + bitw b1 2 + bitw b2 4 + bitw b3 8 + bitw b4 16 + bitw b5 32 + bitw b6 64 + bitw b7 128)
        :: pack8 r
  | [] => []
  | _ => [fold_right (fun b acc => bitw b 1 + 2 * acc) 0 l]
  end.
Definition le_bytes (n : N) : list N :=
  match n with N0 => [] | Npos p => pack8 (pos_bits p) end.
Definition bytes_of_fast (len n : N) : bytes :=
  let le := le_bytes n in
  let k := N.to_nat len in
  rev (firstn k (le ++ repeat 0 (k - length le))).

Definition bs (p : N * N) : bytes := bytes_of_fast (fst p) (snd p).
Definition b2n (b : bool) : N := if b then 1 else 0.

Definition sha_case (m : N * N) : bytes := sha512 (bs m).
Definition to_byte_array_case (neg : bool) (n : N) : bytes :=
  match to_byte_array (if neg then Z.opp (Z.of_N n) else Z.of_N n) with Ok l => l | _ => [999] end.
Definition pad_left_case (m : N * N) (len : N) : bytes :=
  match pad_left (bs m) (N.to_nat len) with Ok l => l | _ => [999] end.

(* constants of the model, to be compared with the module constants of srp.py *)
Definition constants_case : list bytes :=
  [PAD HK_KEY_LENGTH N3072; PAD HK_KEY_LENGTH G3072; PAD HK_KEY_LENGTH K_LITERAL; HGROUP_BYTES;
   [N.of_nat HK_KEY_LENGTH; N.of_nat SALT_LENGTH]].

