(* C02 - small correspondence entry points that do not need the BigN evaluator
   (SHA-512, to_byte_array, pad_left).  Byte strings travel as
   (length, big-endian value); 999 (not a byte) marks "the code raises". *)
From Coq Require Import List NArith ZArith.
From AHK Require Import Lib.Res Lib.ByteStr Model.Sha512 Model.Srp.
Import ListNotations.
Local Open Scope N_scope.

Definition bs (p : N * N) : bytes := bytes_of (fst p) (snd p).
Definition b2n (b : bool) : N := if b then 1 else 0.

Definition sha_case (m : N * N) : bytes := sha512 (bs m).
Definition to_byte_array_case (neg : bool) (n : N) : bytes :=
  match to_byte_array (if neg then Z.opp (Z.of_N n) else Z.of_N n) with Ok l => l | _ => [999] end.
Definition pad_left_case (m : N * N) (len : N) : bytes :=
  match pad_left (bs m) (N.to_nat len) with Ok l => l | _ => [999] end.

(* constants of the model, to be compared with the module constants of srp.py *)
Definition constants_case : list bytes :=
  [PAD HK_KEY_LENGTH N3072; PAD HK_KEY_LENGTH G3072; PAD HK_KEY_LENGTH K_LITERAL; HGROUP_BYTES;
   [N.of_nat HK_KEY_LENGTH; N.of_nat SALT_LENGTH]].

