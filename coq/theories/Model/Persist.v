(* C20 (part i) - file-system model for the persistence code:
     aiohomekit/controller/controller.py   Controller.save_data / load_data
     aiohomekit/characteristic_cache.py    CharacteristicCacheFile.__init__ / _do_save

   Definitions only.  The disk is a map  name -> inode  plus  inode -> bytes; open
   handles refer to inodes, so a rename while a handle is open behaves as on POSIX
   (later writes land in the renamed file).  A save is a list of primitive
   operations, in the order the process issues them to the OS; a crash after n of
   them leaves [crash_after n ops st].  Each inode additionally carries the number
   of leading bytes known to be durable ([synced]); a crash may lose any suffix of
   the not-yet-fsynced data ([crash_view]); meta-data operations (create, truncate,
   rename, unlink) are taken as durable in program order.

   The JSON library is abstract: [print]/[parse] are section variables with the two
   hypotheses the theorems use; [ToyCodec] instantiates them, so the hypotheses are
   jointly satisfiable and nothing is assumed globally. *)
From Coq Require Import List NArith Arith Bool Lia.
From AHK Require Import Lib.Res Lib.ByteStr.
Import ListNotations.

Definition name := N.
Definition ino := N.
Definition handle := N.

Record fs := mkfs {
  names : name -> option ino;
  content : ino -> bytes;
  synced : ino -> nat;
  handles : handle -> option ino;
  fresh : ino }.

Definition upd {A} (f : N -> A) (k : N) (v : A) : N -> A :=
  fun x => if N.eqb x k then v else f x.

Inductive op :=
| OpenTrunc (h : handle) (f : name)     (* open(f, "w"): O_CREAT|O_TRUNC (also mkstemp / "x" on an unused name) *)
| OpenAppend (h : handle) (f : name)    (* open(f, "a") *)
| Write (h : handle) (bs : bytes)       (* one write(2) reaching the OS, at the end of the file *)
| Fsync (h : handle)
| Close (h : handle)
| Rename (a b : name)                   (* os.replace / os.rename *)
| Unlink (a : name).

Definition target_ino (st : fs) (f : name) : ino :=
  match names st f with Some i => i | None => fresh st end.
Definition bump (st : fs) (f : name) : ino :=
  match names st f with Some _ => fresh st | None => N.succ (fresh st) end.

Definition step (st : fs) (o : op) : fs :=
  match o with
  | OpenTrunc h f =>
      let i := target_ino st f in
      mkfs (upd (names st) f (Some i)) (upd (content st) i []) (upd (synced st) i 0)
           (upd (handles st) h (Some i)) (bump st f)
  | OpenAppend h f =>
      let i := target_ino st f in
      match names st f with
      | Some _ => mkfs (names st) (content st) (synced st) (upd (handles st) h (Some i)) (fresh st)
      | None => mkfs (upd (names st) f (Some i)) (upd (content st) i []) (upd (synced st) i 0)
                     (upd (handles st) h (Some i)) (bump st f)
      end
  | Write h bs =>
      match handles st h with
      | Some i => mkfs (names st) (upd (content st) i (content st i ++ bs)) (synced st) (handles st) (fresh st)
      | None => st
      end
  | Fsync h =>
      match handles st h with
      | Some i => mkfs (names st) (content st) (upd (synced st) i (length (content st i))) (handles st) (fresh st)
      | None => st
      end
  | Close h => mkfs (names st) (content st) (synced st) (upd (handles st) h None) (fresh st)
  | Rename a b =>
      if N.eqb a b then st else
      match names st a with
      | Some i => mkfs (upd (upd (names st) b (Some i)) a None) (content st) (synced st) (handles st) (fresh st)
      | None => st
      end
  | Unlink a => mkfs (upd (names st) a None) (content st) (synced st) (handles st) (fresh st)
  end.

Definition run (ops : list op) (st : fs) : fs := fold_left step ops st.
Definition crash_after (n : nat) (ops : list op) (st : fs) : fs := run (firstn n ops) st.

Definition read (st : fs) (f : name) : option bytes := option_map (content st) (names st f).

(* what may be found on disk after the machine went down in state st *)
Definition crash_view (st st' : fs) : Prop :=
  (forall a, names st' a = names st a) /\
  (forall i, exists k, synced st i <= k /\ k <= length (content st i) /\ content st' i = firstn k (content st i)).

(* the two extreme views, executable (used by the correspondence driver) *)
Definition view_all (st : fs) : fs := st.
Definition view_lossy (st : fs) : fs :=
  mkfs (names st) (fun i => firstn (synced st i) (content st i)) (synced st) (fun _ => None) (fresh st).

(* ---- the save procedures ---- *)
(* current code: with open(filename, "w") as fp: fp.write(text) *)
Definition save_inplace (h : handle) (f : name) (chunks : list bytes) : list op :=
  OpenTrunc h f :: map (Write h) chunks ++ [Close h].
(* repaired code: temp file in the same directory, flush+fsync, close, os.replace *)
Definition save_atomic (h : handle) (t f : name) (chunks : list bytes) : list op :=
  OpenTrunc h t :: map (Write h) chunks ++ [Fsync h; Close h; Rename t f].
(* the same without fsync (for the durability refutation) *)
Definition save_atomic_nofsync (h : handle) (t f : name) (chunks : list bytes) : list op :=
  OpenTrunc h t :: map (Write h) chunks ++ [Close h; Rename t f].

(* operations that do not name f *)
Definition no_touch (f : name) (o : op) : bool :=
  match o with
  | OpenTrunc _ a | OpenAppend _ a | Unlink a => negb (N.eqb a f)
  | Rename a b => negb (N.eqb a f) && negb (N.eqb b f)
  | Write _ _ | Fsync _ | Close _ => true
  end.

(* f is a quiescent, durable file: a single name for its inode, nobody has it open *)
Definition quiescent (st : fs) (f : name) (j : ino) : Prop :=
  names st f = Some j /\ (forall a, names st a = Some j -> a = f) /\ (j < fresh st)%N /\
  (forall h, handles st h <> Some j) /\ synced st j = length (content st j).

Definition strict_prefix (p l : bytes) : Prop := exists s, s <> [] /\ l = p ++ s.

Fixpoint bytes_eqb (a b : bytes) : bool :=
  match a, b with
  | [], [] => true
  | x :: a', y :: b' => N.eqb x y && bytes_eqb a' b'
  | _, _ => false
  end.
Fixpoint is_prefix_b (p l : bytes) : bool :=
  match p, l with
  | [], _ => true
  | x :: p', y :: l' => N.eqb x y && is_prefix_b p' l'
  | _ :: _, [] => false
  end.

(* byte-level classification of a file against the old and the new valid contents *)
Inductive fclass := CMissing | COld | CNew | CPrefixNew | COther.
Definition classify (old : option bytes) (new : bytes) (o : option bytes) : fclass :=
  match o with
  | None => CMissing
  | Some bs =>
      if match old with Some ob => bytes_eqb bs ob | None => false end then COld
      else if bytes_eqb bs new then CNew
      else if is_prefix_b bs new then CPrefixNew
      else COther
  end.

(* ---- loaders, relative to an abstract JSON codec ---- *)
Inductive loaded (D : Type) := Missing | Broken | Loaded (d : D).
Arguments Missing {D}.
Arguments Broken {D}.
Arguments Loaded {D} d.

Section Codec.
  Variable data : Type.
  Variable print : data -> bytes.
  Variable parse : bytes -> option data.

  (* Controller.load_data: FileNotFoundError -> nothing loaded; undecodable -> ConfigLoadingError *)
  Definition load_bytes (o : option bytes) : loaded data :=
    match o with
    | None => Missing
    | Some bs => match parse bs with Some d => Loaded d | None => Broken end
    end.
  Definition load (st : fs) (f : name) : loaded data := load_bytes (read st f).

  (* CharacteristicCacheFile.__init__: missing file -> empty; JSON guard -> empty;
     parsed document without the "pairings" member -> KeyError/TypeError escapes (Crash) *)
  Variable cache : Type.
  Variable empty : cache.
  Variable wrap : cache -> data.                  (* {"pairings": c} *)
  Variable get_pairings : data -> option cache.   (* doc["pairings"] *)

  Definition cache_load_bytes (o : option bytes) : res unit cache :=
    match o with
    | None => Ok empty
    | Some bs =>
        match parse bs with
        | None => Ok empty
        | Some v => match get_pairings v with Some c => Ok c | None => Crash end
        end
    end.
  Definition cache_load (st : fs) (f : name) : res unit cache := cache_load_bytes (read st f).

  (* the loader without the JSON guard (mutant / refutation target) *)
  Definition cache_load_unguarded (o : option bytes) : res unit cache :=
    match o with
    | None => Ok empty
    | Some bs =>
        match parse bs with
        | None => Crash
        | Some v => match get_pairings v with Some c => Ok c | None => Crash end
        end
    end.
End Codec.

(* ---- toy instantiation: one length byte followed by the payload ---- *)
Module ToyCodec.
  Definition data := bytes.
  Definition print (d : data) : bytes := N.of_nat (length d) :: d.
  Definition parse (bs : bytes) : option data :=
    match bs with
    | [] => None
    | n :: r => if N.eqb n (N.of_nat (length r)) then Some r else None
    end.
  Definition cache := bytes.
  Definition empty : cache := [].
  Definition wrap (c : cache) : data := c.
  Definition get_pairings (d : data) : option cache := Some d.
End ToyCodec.
