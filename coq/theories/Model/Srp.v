(* C02 - model of aiohomekit/crypto/srp.py (Srp base + SrpClient) and, beside it,
   a specification accessory (RFC 5054 3072-bit group, SHA-512, HAP padding).
   Definitions only.

   Python ints are [Z]; bytes are [N]; [pow(b, e, m)] is the section variable
   [PM] (instantiated by [powm] below, or by the BigN version of Model/SrpBig.v);
   the hash [self.h(...).digest()] is the section variable [H] (instantiated by
   Model/Sha512.v).  Python operations that can raise are partial:
     [int.to_bytes] of a negative int (OverflowError)      -> Crash
     [bytes(length - len(data))] with a negative count (ValueError) -> Crash *)
From Coq Require Import List NArith ZArith Arith Bool.
From AHK Require Import Lib.Res Lib.ByteStr.
Import ListNotations.

Definition sres := res unit.

(* ---------------------------------------------------------------- helpers *)

(* math.ceil(num.bit_length() / 8) *)
Definition byte_len (n : N) : nat := N.to_nat ((N.size n + 7) / 8).

(* srp.py:68  num.to_bytes(ceil(bit_length/8), "big") *)
Definition to_byte_array (z : Z) : sres bytes :=
  if (z <? 0)%Z then Crash
  else Ok (be_enc (byte_len (Z.to_N z)) (Z.to_N z)).

(* srp.py:60  bytes(length - len(data)) + data *)
Definition pad_left (data : bytes) (len : nat) : sres bytes :=
  if length data <=? len then Ok (repeat 0%N (len - length data) ++ data) else Crash.

(* int.from_bytes(b, "big") *)
Definition from_bytes (l : bytes) : Z := Z.of_N (be_dec l).

(* pad_left(to_byte_array(n), len) *)
Definition padded (z : Z) (len : nat) : sres bytes :=
  rbind (to_byte_array z) (fun t => pad_left t len).

Fixpoint beq (x y : bytes) : bool :=
  match x, y with
  | [], [] => true
  | a :: x', b :: y' => N.eqb a b && beq x' y'
  | _, _ => false
  end.

Fixpoint xor_bytes (x y : bytes) : bytes :=
  match x, y with
  | a :: x', b :: y' => N.lxor a b :: xor_bytes x' y'
  | _, _ => []
  end.

Fixpoint strip0 (l : bytes) : bytes :=
  match l with
  | 0%N :: r => strip0 r
  | _ => l
  end.

(* Python's three-argument pow for a non-negative exponent and a positive
   modulus: left-to-right square and multiply on the reduced base.  (A negative
   exponent asks Python for a modular inverse; the client never produces one:
   its exponents are [a], [x] and [a + u*x], all from [int.from_bytes].) *)
Fixpoint powm_pos (b : Z) (e : positive) (m : Z) : Z :=
  match e with
  | xH => b
  | xO e' => let r := powm_pos b e' m in ((r * r) mod m)%Z
  | xI e' => let r := powm_pos b e' m in ((((r * r) mod m) * b) mod m)%Z
  end.

Definition powm (b e m : Z) : Z :=
  match e with
  | Z0 => (1 mod m)%Z
  | Zpos p => powm_pos (b mod m)%Z p m
  | Zneg _ => 0%Z
  end.

Section SrpModel.
  Variable H : bytes -> bytes.           (* self.digest on the concatenation *)
  Variable PM : Z -> Z -> Z -> Z.        (* pow(b, e, m) *)
  Variables (Nm g kc : Z).               (* MODULUS_VALUE, GENERATOR_VALUE, CLIENT_K_VALUE *)
  Variable hgroup : bytes.               (* H_GROUP *)
  Variable L : nat.                      (* HK_KEY_LENGTH *)
  Variable SL : nat.                     (* salt length, 16 *)

  Local Open Scope Z_scope.

  (* ------------------------------------------------------------ the client *)

  (* SrpClient.__init__ : A, A_b *)
  Definition cl_A (a : Z) : Z := PM g a Nm.

  (* Srp._calculate_client_password_x ;  58 = ord(":") *)
  Definition cl_x (I P salt_b : bytes) : Z :=
    from_bytes (H (salt_b ++ H (I ++ [58%N] ++ P))).

  (* Srp._calculate_u *)
  Definition cl_u (A_b B_b : bytes) : Z := from_bytes (H (A_b ++ B_b)).

  (* SrpClient.get_shared_secret *)
  Definition cl_S (a x u B : Z) : Z :=
    let v := PM g x Nm in
    let tmp1 := B - kc * v in
    let tmp2 := a + u * x in
    PM tmp1 tmp2 Nm.

  (* SrpClient.get_proof_bytes *)
  Definition cl_M1 (I salt_b A_b B_b K : bytes) : bytes :=
    H (hgroup ++ H I ++ salt_b ++ A_b ++ B_b ++ K).

  (* what verify_servers_proof hashes *)
  Definition cl_M2 (A_b M1 K : bytes) : bytes := H (A_b ++ M1 ++ K).

  Record cl_result := {
    r_A : Z; r_A_b : bytes; r_salt_b : bytes; r_x : Z; r_u : Z; r_S : Z;
    r_K : bytes;          (* get_session_key_bytes *)
    r_M1 : bytes;         (* get_proof_bytes *)
    r_M2 : bytes          (* the digest verify_servers_proof compares with *)
  }.

  (* SrpClient(I, P) with ephemeral a; set_salt(salt: bytearray);
     set_server_public_key(B_b); then the getters *)
  Definition client (I P : bytes) (a : Z) (salt B_b : bytes) : sres cl_result :=
    let A := cl_A a in
    rbind (padded A L) (fun A_b =>
    rbind (padded (from_bytes salt) SL) (fun salt_b =>
    let x := cl_x I P salt_b in
    let B := from_bytes B_b in
    let u := cl_u A_b B_b in
    let S := cl_S a x u B in
    rbind (padded S L) (fun S_b =>
    let K := H S_b in
    let M1 := cl_M1 I salt_b A_b B_b K in
    Ok {| r_A := A; r_A_b := A_b; r_salt_b := salt_b; r_x := x; r_u := u; r_S := S;
          r_K := K; r_M1 := M1; r_M2 := cl_M2 A_b M1 K |}))).

  (* verify_servers_proof_bytes(M_b): comparison of the two big-endian integers *)
  Definition cl_accepts (r : cl_result) (M_b : bytes) : bool :=
    from_bytes (r_M2 r) =? from_bytes M_b.

  (* --------------------------------------------- the specification accessory
     RFC 5054 (SRP-6a) with the HAP rules: SHA-512; A, B and S enter hashes
     left-padded to the byte length of N; k = H(N | PAD(g)); in
     H(N) xor H(g) the generator is NOT padded; the 16-byte salt is used as
     received.  Written with mathematical exponentiation. *)

  Definition PAD (n : Z) : bytes := be_enc L (Z.to_N n).           (* I2OSP(n, L) *)
  Definition minimal (n : Z) : bytes := strip0 (PAD n).             (* no leading zero byte *)

  Definition spec_k : Z := from_bytes (H (PAD Nm ++ PAD g)).
  Definition spec_hgroup : bytes := xor_bytes (H (minimal Nm)) (H (minimal g)).

  Definition sv_x (I P salt : bytes) : Z := from_bytes (H (salt ++ H (I ++ [58%N] ++ P))).
  Definition sv_v (x : Z) : Z := (g ^ x) mod Nm.
  Definition sv_B (v b : Z) : Z := (spec_k * v + (g ^ b) mod Nm) mod Nm.
  Definition sv_u (A B : Z) : Z := from_bytes (H (PAD A ++ PAD B)).
  Definition sv_S (A v u b : Z) : Z := ((A * v ^ u) ^ b) mod Nm.
  Definition sv_K (S : Z) : bytes := H (PAD S).
  Definition sv_M1 (I salt : bytes) (A B : Z) (K : bytes) : bytes :=
    H (spec_hgroup ++ H I ++ salt ++ PAD A ++ PAD B ++ K).
  Definition sv_M2 (A : Z) (M1 K : bytes) : bytes := H (PAD A ++ M1 ++ K).

  (* the public key the accessory sends in M2 *)
  Definition sv_public (I P salt : bytes) (b : Z) : bytes :=
    PAD (sv_B (sv_v (sv_x I P salt)) b).

  Record sv_result := {
    s_B : Z; s_B_b : bytes; s_S : Z; s_K : bytes;
    s_M1 : bytes;           (* the proof the accessory expects *)
    s_ok : bool;            (* A mod N <> 0 and the received proof is s_M1 *)
    s_M2 : bytes            (* the accessory's proof (sent when s_ok) *)
  }.

  (* accessory with setup code P, salt, ephemeral b, receiving (A_b, M1_b) *)
  Definition server (I P salt : bytes) (b : Z) (A_b M1_b : bytes) : sv_result :=
    let x := sv_x I P salt in
    let v := sv_v x in
    let B := sv_B v b in
    let A := from_bytes A_b in
    let u := sv_u A B in
    let S := sv_S A v u b in
    let K := sv_K S in
    let M1 := sv_M1 I salt A B K in
    {| s_B := B; s_B_b := PAD B; s_S := S; s_K := K; s_M1 := M1;
       s_ok := negb (A mod Nm =? 0) && beq M1_b M1;
       s_M2 := sv_M2 A M1_b K |}.

  (* the same accessory, executable: exponentiation through [PM], every padded
     value computed once (Proofs/Srp.v: server_x_spec shows it equals [server]) *)
  Definition server_x (I P salt : bytes) (b : Z) (A_b M1_b : bytes) : sv_result :=
    let x := sv_x I P salt in
    let v := PM g x Nm in
    let B := (spec_k * v + PM g b Nm) mod Nm in
    let A := from_bytes A_b in
    let A_p := PAD A in
    let B_p := PAD B in
    let u := from_bytes (H (A_p ++ B_p)) in
    let S := PM (A * PM v u Nm) b Nm in
    let K := H (PAD S) in
    let M1 := H (spec_hgroup ++ H I ++ salt ++ A_p ++ B_p ++ K) in
    {| s_B := B; s_B_b := B_p; s_S := S; s_K := K; s_M1 := M1;
       s_ok := negb (A mod Nm =? 0) && beq M1_b M1;
       s_M2 := H (A_p ++ M1_b ++ K) |}.

End SrpModel.

(* ------------------------------------------------------------ the HAP group *)

(* srp.py:40  modulus of the RFC 5054 3072-bit group *)
Definition N3072 : Z :=
  0xFFFFFFFFFFFFFFFFC90FDAA22168C234C4C6628B80DC1CD129024E088A67CC74020BBEA63B139B22514A08798E3404DDEF9519B3CD3A431B302B0A6DF25F14374FE1356D6D51C245E485B576625E7EC6F44C42E9A637ED6B0BFF5CB6F406B7EDEE386BFB5A899FA5AE9F24117C4B1FE649286651ECE45B3DC2007CB8A163BF0598DA48361C55D39A69163FA8FD24CF5F83655D23DCA3AD961C62F356208552BB9ED529077096966D670C354E4ABC9804F1746C08CA18217C32905E462E36CE3BE39E772C180E86039B2783A2EC07A28FB5C55DF06F4C52C9DE2BCBF6955817183995497CEA956AE515D2261898FA051015728E5A8AAAC42DAD33170D04507A33A85521ABDF1CBA64ECFB850458DBEF0A8AEA71575D060C7DB3970F85A6E1E4C7ABF5AE8CDB0933D71E8C94E04A25619DCEE3D2261AD2EE6BF12FFA06D98A0864D87602733EC86A64521F2B18177B200CBBE117577A615D6C770988C0BAD946E208E24FA074E5AB3143DB5BFCE0FD108E4B82D120A93AD2CAFFFFFFFFFFFFFFFF%Z.

(* srp.py:35 *)
Definition G3072 : Z := 5%Z.

(* srp.py:29  CLIENT_K_VALUE *)
Definition K_LITERAL : Z :=
  0xa9c2e2559bf0ebb53f0cbbf62282906bede7f2182f00678211fbd5bde5b285033a4993503b87397f9be5ec02080fedbc0835587ad039060879b8621e8c3659e0%Z.

(* srp.py:74  H_GROUP = H(N) xor H(g), as the 64 bytes it evaluates to *)
Definition HGROUP_VALUE : N :=
  0xb3d63ef6aafb2e9796dae006fe60f20e5326fe1e1c52a5021eb21747ca33dfea8ff203bd45a2544395d73d19899c174a683c9e783296dd1693ebc71cf5a53da3%N.
Definition HGROUP_BYTES : bytes := be_enc 64 HGROUP_VALUE.
Definition HK_KEY_LENGTH : nat := 384.
Definition SALT_LENGTH : nat := 16.
