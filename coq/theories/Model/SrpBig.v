(* C02 - executable instance of Model/Srp.v.
   [powm] on plain [Z] costs ~1 s per modular multiplication at 3072 bits under
   vm_compute; [powm_fast] does the multiplications and reductions on
   Bignums.BigN (primitive 63-bit words) and is proved equal to [powm]
   (Proofs/SrpBig.v), so the correspondence runs evaluate the very functions the
   theorems are about.  Definitions only. *)
From Coq Require Import List NArith ZArith.
From Bignums Require Import BigN.
From AHK Require Import Lib.Res Lib.ByteStr Model.Sha512 Model.Srp Model.SrpServer Model.SrpCases.
Import ListNotations.

Fixpoint bpowm_pos (b : BigN.t) (e : positive) (m : BigN.t) : BigN.t :=
  match e with
  | xH => b
  | xO e' => let r := bpowm_pos b e' m in BigN.modulo (BigN.mul r r) m
  | xI e' => let r := bpowm_pos b e' m in
             BigN.modulo (BigN.mul (BigN.modulo (BigN.mul r r) m) b) m
  end.

(* b mod m for any sign of b (BigN.sub saturates at 0, so the negative case
   goes through m - (|b| mod m)) *)
Definition big_mod (b : Z) (mb : BigN.t) : BigN.t :=
  let r := BigN.modulo (BigN.of_N (Z.abs_N b)) mb in
  if (b <? 0)%Z then BigN.modulo (BigN.sub mb r) mb else r.

Definition powm_fast (b e m : Z) : Z :=
  match e with
  | Z0 => (1 mod m)%Z
  | Zpos p => let mb := BigN.of_N (Z.to_N m) in BigN.to_Z (bpowm_pos (big_mod b mb) p mb)
  | Zneg _ => 0%Z
  end.

(* ---------------------------------------------------- the HAP instance *)

Definition hap_client (PM : Z -> Z -> Z -> Z) :=
  client sha512 PM N3072 G3072 K_LITERAL HGROUP_BYTES HK_KEY_LENGTH SALT_LENGTH.
Definition hap_server_x (PM : Z -> Z -> Z -> Z) :=
  server_x sha512 PM N3072 G3072 HK_KEY_LENGTH.
Definition hap_server := server sha512 N3072 G3072 HK_KEY_LENGTH.
Definition PROOF_LENGTH : nat := 64.
(* aiohomekit.crypto.srp.SrpServer in the HAP group (guard: see Model/SrpServer.v) *)
Definition hap_srpserver (PM : Z -> Z -> Z -> Z) :=
  srpserver sha512 PM N3072 G3072 K_LITERAL HGROUP_BYTES HK_KEY_LENGTH PROOF_LENGTH.

(* ---------------------------------------------------- correspondence entry points
   byte strings travel as (length, big-endian value); results as numbers
   ([tagged] keeps the length of a byte string). *)
Local Open Scope N_scope.

(* client: username, setup code, salt, ephemeral a, received B_b, candidate accessory proofs.
   Answer: [[1]; A_b; M1; K; salt_b; accept bits] or [[0]] when the code raises. *)
Definition client_case (I P salt : N * N) (a : N) (B_b : N * N) (Ms : list (N * N)) : list bytes :=
  match hap_client powm_fast (bs I) (bs P) (Z.of_N a) (bs salt) (bs B_b) with
  | Ok r => [[1]; r_A_b r; r_M1 r; r_K r; r_salt_b r; map (fun m => b2n (cl_accepts r (bs m))) Ms]
  | _ => [[0]]
  end.

(* specification accessory: username, setup code, salt, ephemeral b, received A_b and M1.
   Answer: [B_b; K; expected M1; [ok]; M2] *)
Definition server_case (I P salt : N * N) (b : N) (A_b M1_b : N * N) : list bytes :=
  let r := hap_server_x powm_fast (bs I) (bs P) (bs salt) (Z.of_N b) (bs A_b) (bs M1_b) in
  [s_B_b r; s_K r; s_M1 r; [b2n (s_ok r)]; s_M2 r].


(* SrpServer: guard variant, whether set_client_public_key gets an int, username, setup code, salt bytes,
   ephemeral b, the client's public key bytes, candidate client proofs (the first is also fed to
   get_proof_bytes / get_proof).
   Answer: [[1]; B_b; K; accept bits; M2; get_proof as 64 bytes or [999]]; [[2]] = rejected by the guard;
   [[0]] = the code raises. *)
Definition srpserver_case (guard int_path : bool) (I P salt : N * N) (b : N) (A_b : N * N) (M1s : list (N * N))
  : list bytes :=
  let A_bytes := bs A_b in
  let pub := if int_path then inl (from_bytes A_bytes) else inr A_bytes in
  match hap_srpserver powm_fast guard (bs I) (bs P) (bs salt) (Z.of_N b) pub (bs (hd (0, 0) M1s)) with
  | Ok r => [[1]; p_B_b r; p_K r;
             map (fun m => b2n (Z.eqb (from_bytes (bs m)) (from_bytes (p_M1 r)))) M1s;
             p_M2 r;
             match p_M2_int r with Ok z => be_enc PROOF_LENGTH (Z.to_N z) | _ => [999] end]
  | Err _ => [[2]]
  | _ => [[0]]
  end.
