(* Bit-exact executable model of aiohomekit/crypto/hkdf.py::hkdf_derive
     HKDF(algorithm=SHA512, length, salt, info).derive(input)            (RFC 5869 over HMAC-SHA-512, RFC 2104)
   on top of the SHA-512 model of Model/Sha512.v.  Every session key of the three transports, the
   pair-setup/pair-verify encryption keys and the BLE broadcast key come out of this function; the
   protocol models treat it as the free symbol THkdf - this file is what that symbol stands for.

   `cryptography` raises ValueError when length > 255 * 64 ("Cannot derive keys larger than 16320
   octets"): [hkdf_derive] returns None exactly there.  A salt of b"" and a salt of 64 zero bytes
   give the same HMAC key block, as in the real code. *)
From Coq Require Import List NArith Arith Bool Lia.
From AHK Require Import Lib.ByteStr Model.Sha512.
Import ListNotations.
Local Open Scope N_scope.

Definition hmac_key_block (k : bytes) : bytes :=
  let k' := if (128 <? length k)%nat then sha512 k else k in
  k' ++ repeat 0 (128 - length k')%nat.

Definition hmac512 (key msg : bytes) : bytes :=
  let kb := hmac_key_block key in
  sha512 (map (N.lxor 92) kb ++ sha512 (map (N.lxor 54) kb ++ msg)).

Definition hkdf_extract (salt ikm : bytes) : bytes := hmac512 salt ikm.

(* T(i) = HMAC(prk, T(i-1) ++ info ++ [i]) *)
Fixpoint hkdf_blocks (n : nat) (prk info prev : bytes) (i : N) : bytes :=
  match n with
  | O => []
  | S k => let t := hmac512 prk (prev ++ info ++ [i]) in t ++ hkdf_blocks k prk info t (i + 1)
  end.

Definition hkdf_nblocks (len : nat) : nat := Nat.div (len + 63) 64.

Definition hkdf_expand (prk info : bytes) (len : nat) : bytes :=
  firstn len (hkdf_blocks (hkdf_nblocks len) prk info [] 1).

Definition hkdf_max : nat := 255 * 64.

Definition hkdf_derive (ikm salt info : bytes) (len : nat) : option bytes :=
  if (hkdf_max <? len)%nat then None else Some (hkdf_expand (hkdf_extract salt ikm) info len).
