(* Symbolic model of aiohomekit/protocol/__init__.py::perform_pair_setup_part1 /
   perform_pair_setup_part2 and of a specification accessory (HAP R2 5.6).
   SRP-6a is abstract (Model/Sym.v: srp_A, srp_B, srp_kc, srp_ks, srp_m1, srp_m2);
   its arithmetic is C02's.  The generators are modelled as step functions:
       ps1_m1, ps1_on_m2                         part 1
       ps2_start, ps2_on_m4, ps2_on_m6           part 2
   Definitions only. *)
From Coq Require Import List NArith Arith Bool.
From AHK Require Import Lib.Res Lib.ByteStr Model.Tlv Model.Sym.
Import ListNotations.

(* ---- labels, types ---- *)
Definition L_pse_salt := str "Pair-Setup-Encrypt-Salt".
Definition L_pse_info := str "Pair-Setup-Encrypt-Info".
Definition L_psc_salt := str "Pair-Setup-Controller-Sign-Salt".
Definition L_psc_info := str "Pair-Setup-Controller-Sign-Info".
Definition L_psa_salt := str "Pair-Setup-Accessory-Sign-Salt".
Definition L_psa_info := str "Pair-Setup-Accessory-Sign-Info".
Definition N_ps05 := nonce "PS-Msg05".
Definition N_ps06 := nonce "PS-Msg06".

Definition S_method := 0%N.
Definition S_id := 1%N.
Definition S_salt := 2%N.
Definition S_pk := 3%N.
Definition S_proof := 4%N.
Definition S_enc := 5%N.
Definition S_state := 6%N.
Definition S_error := 7%N.
Definition S_sig := 10%N.

Definition exp_s2 : list N := [S_state; S_error; S_pk; S_salt].
Definition exp_s4 : list N := [S_state; S_error; S_proof; S_enc].
Definition exp_s6 : list N := [S_state; S_error; S_enc].

(* ---- strict UTF-8 (bytes.decode()): Unicode table 3-7 ---- *)
Definition in_rng (lo hi b : N) : bool := N.leb lo b && N.leb b hi.
Definition u_cont (b : N) : bool := in_rng 128 191 b.
Fixpoint utf8_ok (l : bytes) : bool :=
  match l with
  | [] => true
  | b0 :: r =>
      if N.ltb b0 128 then utf8_ok r
      else if in_rng 194 223 b0 then
        match r with b1 :: r1 => u_cont b1 && utf8_ok r1 | _ => false end
      else if N.eqb b0 224 then
        match r with b1 :: b2 :: r2 => in_rng 160 191 b1 && u_cont b2 && utf8_ok r2 | _ => false end
      else if in_rng 225 236 b0 || in_rng 238 239 b0 then
        match r with b1 :: b2 :: r2 => u_cont b1 && u_cont b2 && utf8_ok r2 | _ => false end
      else if N.eqb b0 237 then
        match r with b1 :: b2 :: r2 => in_rng 128 159 b1 && u_cont b2 && utf8_ok r2 | _ => false end
      else if N.eqb b0 240 then
        match r with b1 :: b2 :: b3 :: r3 => in_rng 144 191 b1 && u_cont b2 && u_cont b3 && utf8_ok r3 | _ => false end
      else if in_rng 241 243 b0 then
        match r with b1 :: b2 :: b3 :: r3 => u_cont b1 && u_cont b2 && u_cont b3 && utf8_ok r3 | _ => false end
      else if N.eqb b0 244 then
        match r with b1 :: b2 :: b3 :: r3 => in_rng 128 143 b1 && u_cont b2 && u_cont b3 && utf8_ok r3 | _ => false end
      else false
  end.

(* ---- SrpClient.set_salt: int.from_bytes, then pad_left(to_byte_array(.), 16);
   more than 16 significant bytes make bytes(16 - len) raise ValueError ---- *)
Definition norm_salt (s : msg) : option msg :=
  let s' := strip0 s in
  if N.ltb 16 (mlen s') then None
  else Some (lit (repeat 0%N (N.to_nat (16 - mlen s'))) ++ s').

(* ---- what the caller supplies / what is generated inside ---- *)
Record ps_cfg := {
  ps_code : msg;        (* the setup code (pin), literal *)
  ps_ios_id : bytes;    (* ios_pairing_id *)
  ps_a : N;             (* SRP client secret (generate_private_key) *)
  ps_ltsk : N           (* the fresh Ed25519 long-term key (Ed25519PrivateKey.generate) *)
}.

(* the returned pairing record *)
Record ps_rec := {
  r_acc_id : bytes;     (* AccessoryPairingID *)
  r_acc_ltpk : msg;     (* AccessoryLTPK *)
  r_ios_id : bytes;     (* iOSPairingId *)
  r_ios_ltsk : N;       (* iOSDeviceLTSK *)
  r_ios_ltpk : msg      (* iOSDeviceLTPK *)
}.

Inductive ps1_step :=
| S1Fail (f : fail)
| S1Done (salt B : msg).

Inductive ps_step :=
| SFail (f : fail)
| SSend (req : list sitem) (K : msg)
| SDone (r : ps_rec)
| SUnsup.

(* ---- part 1 ---- *)
Definition ps1_m1 (with_auth : bool) : list sitem :=
  [(S_state, [AByte 1]); (S_method, [AByte (if with_auth then 1 else 0)])].

Definition ps1_on_m2 (tr : transport) (reply : list sitem) : ps1_step :=
  let d := prep tr exp_s2 reply in
  match state_step d 2 with
  | Some f => S1Fail f
  | None =>
      match slookup S_pk d with
      | None => S1Fail FInvalid
      | Some B =>
          match slookup S_salt d with
          | None => S1Fail FInvalid
          | Some salt => S1Done salt B
          end
      end
  end.

(* ---- part 2 ---- *)
Definition ps_key (K : msg) : msg := s_hkdf K L_pse_salt L_pse_info 32.
Definition ps_ios_x (K : msg) : msg := s_hkdf K L_psc_salt L_psc_info 32.
Definition ps_acc_x (K : msg) : msg := s_hkdf K L_psa_salt L_psa_info 32.

(* SRP values of this run: normalised salt, A, K, client proof *)
Definition ps_K (c : ps_cfg) (sb B : msg) : msg := srp_kc (ps_code c) sb (ps_a c) B.
Definition ps_M1 (c : ps_cfg) (sb B : msg) : msg := srp_m1 sb (srp_A (ps_a c)) B (ps_K c sb B).

(* first request of part 2; None = ValueError from set_salt *)
Definition ps2_start (c : ps_cfg) (salt B : msg) : option (list sitem * msg) :=
  match norm_salt salt with
  | None => None
  | Some sb =>
      Some ([(S_state, [AByte 3]); (S_pk, srp_A (ps_a c)); (S_proof, ps_M1 c sb B)], sb)
  end.

Definition m5_req (c : ps_cfg) (K : msg) : list sitem :=
  let pk := s_pub (ps_ltsk c) in
  [(S_state, [AByte 5]);
   (S_enc, s_seal (ps_key K) N_ps05 []
             (senc [(S_id, lit (ps_ios_id c)); (S_pk, pk);
                    (S_sig, s_sign (ps_ltsk c) (ps_ios_x K ++ lit (ps_ios_id c) ++ pk))]))].

Definition ps2_on_m4 (tr : transport) (c : ps_cfg) (sb B : msg) (reply : list sitem) : ps_step :=
  let d := prep tr exp_s4 reply in
  match state_step d 4 with
  | Some f => SFail f
  | None =>
      match slookup S_proof d with
      | None => SFail FInvalid
      | Some proof =>
          let K := ps_K c sb B in
          (* verify_servers_proof_bytes compares integers: leading zero bytes are immaterial *)
          if negb (msg_eqb (strip0 proof) (srp_m2 (srp_A (ps_a c)) (ps_M1 c sb B) K)) then SFail FProof
          else SSend (m5_req c K) K
      end
  end.

Definition ps2_on_m6 (tr : transport) (c : ps_cfg) (K : msg) (reply : list sitem) : ps_step :=
  let d := prep tr exp_s6 reply in
  match state_step d 6 with
  | Some f => SFail f
  | None =>
      match slookup S_enc d with
      | None => SFail FInvalid
      | Some enc =>
          match s_open (ps_key K) N_ps06 [] enc with
          | None => SFail FAuthTag
          | Some sub =>
              match sdec sub with
              | SUnsupported => SUnsup
              | SParseErr => SFail FParse
              | SItems items =>
                  let d1 := smerge items in
                  match slookup S_sig d1 with
                  | None => SFail FInvalid
                  | Some sg =>
                      match slookup S_id d1 with
                      | None => SFail FInvalid
                      | Some idm =>
                          match slookup S_pk d1 with
                          | None => SFail FInvalid
                          | Some ltpk =>
                              if negb (N.eqb (mlen ltpk) 32) then SFail FCrash
                              else if negb (s_verify ltpk sg (ps_acc_x K ++ idm ++ ltpk)) then SFail FSig
                              else
                                match as_bytes idm with
                                | None => SFail FCrash          (* opaque bytes: not decodable text *)
                                | Some idb =>
                                    if negb (utf8_ok idb) then SFail FCrash
                                    else SDone {| r_acc_id := idb; r_acc_ltpk := ltpk;
                                                  r_ios_id := ps_ios_id c; r_ios_ltsk := ps_ltsk c;
                                                  r_ios_ltpk := s_pub (ps_ltsk c) |}
                                end
                          end
                      end
                  end
              end
          end
      end
  end.

(* both generators against scripted replies, as finish_pairing chains them *)
Definition ps_run (tr : transport) (c : ps_cfg) (m2 m4 m6 : list sitem) : ps_step :=
  match ps1_on_m2 tr m2 with
  | S1Fail f => SFail f
  | S1Done salt B =>
      match ps2_start c salt B with
      | None => SFail FCrash
      | Some (_, sb) =>
          match ps2_on_m4 tr c sb B m4 with
          | SSend _ K => ps2_on_m6 tr c K m6
          | x => x
          end
      end
  end.

(* ---- specification accessory (HAP R2 5.6.2 - 5.6.6) ---- *)
Record sacc := {
  sa_code : msg;      (* its setup code *)
  sa_salt : msg;      (* 16-byte salt *)
  sa_b : N;           (* SRP server secret *)
  sa_id : bytes;      (* accessory pairing identifier *)
  sa_ltsk : N         (* accessory long-term Ed25519 secret *)
}.

Definition sacc_B (a : sacc) : msg := srp_B (sa_b a) (sa_code a) (sa_salt a).

Definition sacc_m2 (a : sacc) (m1 : list sitem) : list sitem :=
  [(S_state, [AByte 2]); (S_pk, sacc_B a); (S_salt, sa_salt a)].

Definition sacc_reject (st : N) : list sitem := [(S_state, [AByte st]); (S_error, [AByte 2])].

(* reply to M3, verdict on the controller's proof, session key *)
Definition sacc_m4 (a : sacc) (m3 : list sitem) : list sitem * bool * msg :=
  let d := smerge m3 in
  match slookup S_pk d, slookup S_proof d with
  | Some A, Some proof =>
      let K := srp_ks (sa_code a) (sa_salt a) (sa_b a) A in
      if msg_eqb proof (srp_m1 (sa_salt a) A (sacc_B a) K)
      then ([(S_state, [AByte 4]); (S_proof, srp_m2 A proof K)], true, K)
      else (sacc_reject 4, false, K)
  | _, _ => (sacc_reject 4, false, [])
  end.

(* reply to M5, verdict, and the controller identity it stores *)
Definition sacc_m6 (a : sacc) (K : msg) (m5 : list sitem) : list sitem * bool * option (msg * msg) :=
  let d := smerge m5 in
  match slookup S_enc d with
  | None => (sacc_reject 6, false, None)
  | Some enc =>
      match s_open (ps_key K) N_ps05 [] enc with
      | None => (sacc_reject 6, false, None)
      | Some sub =>
          match sdec sub with
          | SItems items =>
              let d1 := smerge items in
              match slookup S_id d1, slookup S_pk d1, slookup S_sig d1 with
              | Some cid, Some cpk, Some sg =>
                  if s_verify cpk sg (ps_ios_x K ++ cid ++ cpk) then
                    let pk := s_pub (sa_ltsk a) in
                    ([(S_state, [AByte 6]);
                      (S_enc, s_seal (ps_key K) N_ps06 []
                                (senc [(S_id, lit (sa_id a)); (S_pk, pk);
                                       (S_sig, s_sign (sa_ltsk a) (ps_acc_x K ++ lit (sa_id a) ++ pk))]))],
                     true, Some (cid, cpk))
                  else (sacc_reject 6, false, None)
              | _, _, _ => (sacc_reject 6, false, None)
              end
          | _ => (sacc_reject 6, false, None)
          end
      end
  end.

(* one whole pairing against the specification accessory; the adversary may
   substitute M2 / M4 / M6 (driver entry point) *)
Record ps_trace := {
  pt_result : ps_step;
  pt_m2_spec : list sitem;
  pt_m3_accepted : option bool;
  pt_m5_accepted : option bool;
  pt_stored : option (msg * msg)       (* what the accessory stored for the controller *)
}.

Definition ps_exchange (tr : transport) (c : ps_cfg) (with_auth : bool) (a : sacc)
           (m2x m4x m6x : option (list sitem)) : ps_trace :=
  let m2s := sacc_m2 a (ps1_m1 with_auth) in
  let m2 := match m2x with Some x => x | None => m2s end in
  let fin r a3 a5 st := {| pt_result := r; pt_m2_spec := m2s; pt_m3_accepted := a3;
                           pt_m5_accepted := a5; pt_stored := st |} in
  match ps1_on_m2 tr m2 with
  | S1Fail f => fin (SFail f) None None None
  | S1Done salt B =>
      match ps2_start c salt B with
      | None => fin (SFail FCrash) None None None
      | Some (m3, sb) =>
          let '(m4s, ok3, Ka) := sacc_m4 a m3 in
          let m4 := match m4x with Some x => x | None => m4s end in
          match ps2_on_m4 tr c sb B m4 with
          | SSend m5 K =>
              let '(m6s, ok5, st) := sacc_m6 a Ka m5 in
              let m6 := match m6x with Some x => x | None => m6s end in
              fin (ps2_on_m6 tr c K m6) (Some ok3) (Some ok5) st
          | r => fin r (Some ok3) None None
          end
      end
  end.

(* ---- specification side of the theorems ---- *)
Definition s_state_ok (d : list sitem) (n : N) : Prop :=
  slookup S_state d = None \/ slookup S_state d = Some [AByte n].
Definition s_no_error (d : list sitem) : Prop := slookup S_error d = None.

(* what a returned record certifies *)
Definition ps_authentic (tr : transport) (c : ps_cfg) (m2 m4 m6 : list sitem) (r : ps_rec) : Prop :=
  let d2 := prep tr exp_s2 m2 in
  let d4 := prep tr exp_s4 m4 in
  let d6 := prep tr exp_s6 m6 in
  exists salt sb B proof sub items idb L,
    (* M2 carried salt and public key *)
    slookup S_salt d2 = Some salt /\ slookup S_pk d2 = Some B /\ norm_salt salt = Some sb /\
    (* M4's proof is the server proof of THIS exchange and code *)
    let K := ps_K c sb B in
    slookup S_proof d4 = Some proof /\
    strip0 proof = srp_m2 (srp_A (ps_a c)) (ps_M1 c sb B) K /\
    (* M6 opens under the exchange key to {id, LTPK, signature by LTPK over X ‖ id ‖ LTPK} *)
    slookup S_enc d6 = Some (s_seal (ps_key K) N_ps06 [] sub) /\
    sdec sub = SItems items /\
    slookup S_id (smerge items) = Some (lit idb) /\ utf8_ok idb = true /\
    slookup S_pk (smerge items) = Some (s_pub L) /\
    slookup S_sig (smerge items) = Some (s_sign L (ps_acc_x K ++ lit idb ++ s_pub L)) /\
    (* the record holds exactly that, and a matching controller key pair *)
    r = {| r_acc_id := idb; r_acc_ltpk := s_pub L; r_ios_id := ps_ios_id c;
           r_ios_ltsk := ps_ltsk c; r_ios_ltpk := s_pub (ps_ltsk c) |} /\
    s_state_ok d2 2 /\ s_no_error d2 /\ s_state_ok d4 4 /\ s_no_error d4 /\
    s_state_ok d6 6 /\ s_no_error d6.

(* the honest shapes, every component explicit *)
Definition s_m4_shape (st proof : msg) : list sitem := [(S_state, st); (S_proof, proof)].
Definition s_m6_shape (st key nn aad idm ltpk sg : msg) : list sitem :=
  [(S_state, st);
   (S_enc, s_seal key nn aad (senc [(S_id, idm); (S_pk, ltpk); (S_sig, sg)]))].
