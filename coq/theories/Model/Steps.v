(* Model of the reply handling of the HAP pairing state machines
   (aiohomekit/protocol/__init__.py: error_handler, handle_state_step,
   perform_pair_setup_part1/part2, get_session_keys), of the glue that decodes
   a reply with the step's 'expected' type list before handing it to the
   generator (controller/ip/connection.py::post_tlv, coap/connection.py
   do_pair_*; BLE hands over the unfiltered dict), and of the add/remove
   pairing reply checks of controller/ip/pairing.py and controller/ble/pairing.py.

   The model is of the REPAIRED code (fixes/C04-*.patch):
     - handle_state_step checks the Error item also when the State item is absent;
     - pair-verify M2 expects [State; Error; PublicKey; EncryptedData].
   The unrepaired variants are kept below ([hss_unrepaired], [expected_unrepaired])
   only to record the defect witnesses.

   Cryptography is abstracted: every crypto check is an oracle value supplied as
   an input (record [oracles]); the theorems quantify over all oracle answers.
   Definitions only; proofs are in Proofs/Steps.v. *)
From Coq Require Import List NArith Arith Bool.
From AHK Require Import Lib.Res Lib.ByteStr Model.Tlv.
Import ListNotations.

(* exception classes the property distinguishes (aiohomekit/exceptions.py);
   EParse is TlvParseException raised by the decoding glue *)
Inductive errclass :=
| EAuthentication | EBackoff | EMaxPeers | EMaxTries | EUnavailable | EBusy
| EInvalid | EUnknown | EIllegalData | EInvalidAuthTag | EIncorrectPairingId
| EInvalidSignature | EParse
| EPduStatus.        (* ble.client.PDUStatusError: the HAP-BLE PDU carried a non-success status *)

(* TLV type numbers (protocol/tlv.py) *)
Definition tMethod : N := 0.
Definition tIdentifier : N := 1.
Definition tSalt : N := 2.
Definition tPublicKey : N := 3.
Definition tProof : N := 4.
Definition tEncryptedData : N := 5.
Definition tState : N := 6.
Definition tError : N := 7.
Definition tSignature : N := 10.
Definition tSessionID : N := 14.

Fixpoint eqb_bytes (a b : bytes) : bool :=
  match a, b with
  | [], [] => true
  | x :: a', y :: b' => N.eqb x y && eqb_bytes a' b'
  | _, _ => false
  end.

(* ---- error_handler: code bytes -> exception class ------------------------
   Python compares the bytearray with the one-byte constants; anything else
   (Unknown=1, 0, 8.., empty, longer) falls through to InvalidError. *)
Definition error_handler (code : bytes) : errclass :=
  match code with
  | [c] =>
      if N.eqb c 6 then EUnavailable
      else if N.eqb c 2 then EAuthentication
      else if N.eqb c 3 then EBackoff
      else if N.eqb c 4 then EMaxPeers
      else if N.eqb c 5 then EMaxTries
      else if N.eqb c 7 then EBusy
      else EInvalid
  | _ => EInvalid
  end.

(* the class the HAP table documents for a code, as a specification *)
Definition documented_class (code : bytes) : errclass :=
  if eqb_bytes code [2%N] then EAuthentication
  else if eqb_bytes code [3%N] then EBackoff
  else if eqb_bytes code [4%N] then EMaxPeers
  else if eqb_bytes code [5%N] then EMaxTries
  else if eqb_bytes code [6%N] then EUnavailable
  else if eqb_bytes code [7%N] then EBusy
  else EInvalid.

(* ---- handle_state_step ---------------------------------------------------
   [d] is the decoded item list; Python's dict(list) is [lookup] (last wins).
   None = returns normally. *)
Definition check_error (d : list item) : option errclass :=
  match lookup tError d with
  | Some code => Some (error_handler code)
  | None => None
  end.

Definition hss (d : list item) (expected_state : N) : option errclass :=
  match lookup tState d with
  | Some st => if eqb_bytes st [expected_state] then check_error d else Some EInvalid
  | None => check_error d                      (* repaired: was [None] *)
  end.

Definition hss_unrepaired (d : list item) (expected_state : N) : option errclass :=
  match lookup tState d with
  | Some st => if eqb_bytes st [expected_state] then check_error d else Some EInvalid
  | None => None
  end.

(* ---- steps ---------------------------------------------------------------- *)
Inductive step := SetupM2 | SetupM4 | SetupM6 | VerifyM2 | VerifyM4.

Definition expected_state (s : step) : N :=
  match s with SetupM2 => 2 | SetupM4 => 4 | SetupM6 => 6 | VerifyM2 => 2 | VerifyM4 => 4 end.

(* stepN_expectations *)
Definition expected (s : step) : list N :=
  match s with
  | SetupM2 => [tState; tError; tPublicKey; tSalt]
  | SetupM4 => [tState; tError; tProof; tEncryptedData]
  | SetupM6 => [tState; tError; tEncryptedData]
  | VerifyM2 => [tState; tError; tPublicKey; tEncryptedData]   (* repaired: Error added *)
  | VerifyM4 => [tState; tError]
  end.

Definition expected_unrepaired (s : step) : list N :=
  match s with
  | VerifyM2 => [tState; tPublicKey; tEncryptedData]
  | _ => expected s
  end.

(* crypto oracles and the caller-supplied context *)
Record oracles := {
  o_srp_proof_ok : bool;          (* setup M4: srp_client.verify_servers_proof_bytes(proof) *)
  o_m6_plain : option bytes;      (* setup M6: decrypt(EncryptedData); None = DecryptionError *)
  o_m6_sig_ok : bool;             (* setup M6: accessory Ed25519 signature verifies *)
  o_derive_given : bool;          (* verify: a resume [derive] was passed by the caller *)
  o_resume_plain : option bytes;  (* verify M2 resume: decrypt(auth tag); None = DecryptionError *)
  o_v2_plain : option bytes;      (* verify M2: decrypt(EncryptedData); None = DecryptionError *)
  o_v2_sig_ok : bool;             (* verify M2: accessory signature verifies *)
  o_pairing_id : bytes            (* verify: pairing_data["AccessoryPairingID"].encode() *)
}.

(* what a step that does not raise does next *)
Inductive progress :=
| PSaltKey (salt pk : bytes)      (* part1 returns (salt, public key) *)
| PContinue                       (* generator yields the next request *)
| PPairing (id ltpk : bytes)      (* part2 returns the pairing record *)
| PResumed                        (* get_session_keys returns the resumed session *)
| PKeys.                          (* get_session_keys returns (session_id, derive) *)

Definition outcome := res errclass progress.

Definition of_hss (h : option errclass) (k : outcome) : outcome :=
  match h with Some e => Err e | None => k end.

(* bytes.decode(): modelled on the harness' domain (ASCII, or a byte >= 128
   which is never valid UTF-8 on its own there): non-ASCII = UnicodeDecodeError *)
Definition utf8_ok (b : bytes) : bool := forallb (fun x => N.ltb x 128) b.

(* X25519PublicKey / Ed25519PublicKey .from_public_bytes: ValueError unless 32 bytes *)
Definition key32 (b : bytes) : bool := Nat.eqb (length b) 32.

(* TLV.decode_bytes of a decrypted sub-TLV *)
Definition sub_decode (plain : bytes) (k : list item -> outcome) : outcome :=
  match tlv_decode plain with
  | Ok items => k items
  | Err _ => Err EParse
  | Crash => Crash
  | OutOfFuel => OutOfFuel
  end.

Definition nonempty (o : option bytes) : option bytes :=
  match o with Some [] => None | x => x end.

(* resume_m3 : does the reply resume the session? *)
Definition resume_m3 (o : oracles) (d : list item) : bool :=
  match nonempty (lookup tMethod d) with
  | None => false
  | Some m =>
      if negb (N.eqb (le_dec m) 6) then false
      else match nonempty (lookup tSessionID d) with
           | None => false
           | Some _ =>
               match nonempty (lookup tEncryptedData d) with
               | None => false
               | Some _ =>
                   match o_resume_plain o with
                   | Some [] => true
                   | _ => false
                   end
               end
           end
  end.

Definition step_items (s : step) (o : oracles) (d : list item) : outcome :=
  of_hss (hss d (expected_state s))
  match s with
  | SetupM2 =>
      match lookup tPublicKey d with
      | None => Err EInvalid
      | Some pk =>
          match lookup tSalt d with
          | None => Err EInvalid
          | Some salt => Ok (PSaltKey salt pk)
          end
      end
  | SetupM4 =>
      match lookup tProof d with
      | None => Err EInvalid
      | Some _ => if o_srp_proof_ok o then Ok PContinue else Err EAuthentication
      end
  | SetupM6 =>
      match lookup tEncryptedData d with
      | None => Err EInvalid
      | Some _ =>
          match o_m6_plain o with
          | None => Err EIllegalData
          | Some plain =>
              sub_decode plain (fun sub =>
                match lookup tSignature sub with
                | None => Err EInvalid
                | Some _ =>
                    match lookup tIdentifier sub with
                    | None => Err EInvalid
                    | Some id =>
                        match lookup tPublicKey sub with
                        | None => Err EInvalid
                        | Some ltpk =>
                            if negb (key32 ltpk) then Crash
                            else if negb (o_m6_sig_ok o) then Err EInvalidSignature
                            else if negb (utf8_ok id) then Crash
                            else Ok (PPairing id ltpk)
                        end
                    end
                end)
          end
      end
  | VerifyM2 =>
      if o_derive_given o && resume_m3 o d then Ok PResumed
      else
        match lookup tPublicKey d with
        | None => Err EInvalid
        | Some pk =>
            match lookup tEncryptedData d with
            | None => Err EInvalid
            | Some _ =>
                if negb (key32 pk) then Crash
                else
                  match o_v2_plain o with
                  | None => Err EInvalidAuthTag
                  | Some plain =>
                      sub_decode plain (fun sub =>
                        match lookup tIdentifier sub with
                        | None => Err EInvalid
                        | Some id =>
                            match lookup tSignature sub with
                            | None => Err EInvalid
                            | Some _ =>
                                if negb (utf8_ok id) then Crash
                                else if negb (eqb_bytes (o_pairing_id o) id) then Err EIncorrectPairingId
                                else if negb (o_v2_sig_ok o) then Err EInvalidSignature
                                else Ok PContinue
                            end
                        end)
                  end
            end
        end
  | VerifyM4 => Ok PKeys
  end.

(* ---- the decoding glue ----------------------------------------------------
   IP / CoAP: TLV.decode_bytes(body, expected=stepN_expectations) (a list, which
   the generator turns into a dict); BLE: dict(TLV.decode_bytes(buffer)) without
   filter.  A TlvParseException escapes to the caller. *)
Inductive transport := Filtered | Unfiltered.

Definition glue_filter (t : transport) (s : step) : list N :=
  match t with Filtered => expected s | Unfiltered => [] end.

Definition step_wire (t : transport) (s : step) (o : oracles) (reply : bytes) : outcome :=
  match tlv_decode_exp (glue_filter t s) reply with
  | Ok items => step_items s o items
  | Err _ => Err EParse
  | Crash => Crash
  | OutOfFuel => OutOfFuel
  end.

(* the glue of the unrepaired tree, for the defect witnesses only *)
Definition step_wire_unrepaired_filter (s : step) (o : oracles) (reply : bytes) : outcome :=
  match tlv_decode_exp (expected_unrepaired s) reply with
  | Ok items => step_items s o items
  | Err _ => Err EParse
  | Crash => Crash
  | OutOfFuel => OutOfFuel
  end.

(* ---- whole generators: a failing step ends the run ------------------------ *)
Definition run_setup2 (o : oracles) (m4 m6 : list item) : outcome :=
  match step_items SetupM4 o m4 with
  | Ok _ => step_items SetupM6 o m6
  | r => r
  end.

Definition run_verify (o : oracles) (m2 m4 : list item) : outcome :=
  match step_items VerifyM2 o m2 with
  | Ok PResumed => Ok PResumed
  | Ok _ => step_items VerifyM4 o m4
  | r => r
  end.

(* ---- add / remove pairing reply checks ------------------------------------ *)
Inductive mgmt_op := IpAdd | IpRemove | BleAdd | BleRemove.

Inductive mgmt_done : Set := MDone.

(* data.get(State, M2) != M2 -> InvalidError; then the Error item *)
Definition mgmt_items (op : mgmt_op) (d : list item) : res errclass mgmt_done :=
  let st := match lookup tState d with Some st => st | None => [2%N] end in
  if negb (eqb_bytes st [2%N]) then Err EInvalid
  else
    match lookup tError d with
    | None => Ok MDone
    | Some code =>
        match op with
        | IpAdd => Err (error_handler code)
        | _ => if eqb_bytes code [2%N] then Err EAuthentication else Err EUnknown
        end
    end.

(* IP: dict(post_tlv(...)) without filter.  BLE: the reply is wrapped:
   response = dict(decode(resp)); data = dict(decode(response[1])) ; a missing
   value item is a KeyError (Crash). *)
Definition mgmt_wire (op : mgmt_op) (reply : bytes) : res errclass mgmt_done :=
  match op with
  | IpAdd | IpRemove =>
      match tlv_decode reply with
      | Ok d => mgmt_items op d
      | Err _ => Err EParse
      | Crash => Crash
      | OutOfFuel => OutOfFuel
      end
  | BleAdd | BleRemove =>
      match tlv_decode reply with
      | Ok outer =>
          match lookup 1 outer with
          | None => Crash
          | Some inner =>
              match tlv_decode inner with
              | Ok d => mgmt_items op d
              | Err _ => Err EParse
              | Crash => Crash
              | OutOfFuel => OutOfFuel
              end
          end
      | Err _ => Err EParse
      | Crash => Crash
      | OutOfFuel => OutOfFuel
      end
  end.
