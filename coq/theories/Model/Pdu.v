(* C17 - executable model of the HAP PDU layer.

   BLE  : aiohomekit/pdu.py            encode_pdu, decode_pdu, decode_pdu_continuation
          aiohomekit/controller/ble/client.py   _write_pdu, _read_pdu (ble_request)
          aiohomekit/controller/ble/key.py      EncryptionKey / DecryptionKey (counter nonces)
   CoAP : aiohomekit/controller/coap/pdu.py     encode_pdu, encode_all_pdus, decode_pdu, decode_all_pdus
          aiohomekit/controller/coap/connection.py   the result -> (aid, iid) loops of the *_exit methods

   Definitions only.  Bytes are N, byte strings list N.  The AEAD is abstract:
   [seal n m] / [open n c] with the counter n as nonce; theorems assume only
   [open n (seal n m) = Some m]; [toy_seal]/[toy_open] instantiate it (non-vacuity and
   the correspondence driver: a fragment opens iff it was sealed under the same counter).

   Partial Python primitives: struct.pack range errors and struct.unpack on short
   input (struct.error) are [Crash]; the library's ValueError / EncryptionError are [Err];
   running out of scripted fragments is [Err Starved] (the real code would block on the
   next GATT read). *)
From Coq Require Import List NArith ZArith Arith Bool Lia ZifyN ZifyNat ZifyBool.
From AHK Require Import Lib.Res Lib.ByteStr.
Import ListNotations.

Inductive perr := ValueError | EncryptionError | Starved.

Definition le16 (n : N) : bytes := le_enc 2 n.
Definition u16 (l0 l1 : N) : N := (l0 + 256 * l1)%N.

(* ------------------------------------------------------------------ BLE: request *)

(* STRUCT_BBBH_PACK(0, opcode, tid, iid) *)
Definition ble_header (opcode tid iid : N) : bytes := 0%N :: opcode :: tid :: le16 iid.

(* Python slices data[:k] and data[k:] with k = fragment_size - 7; for k < 0 both
   count from the end: the cut is at max 0 (len + k) *)
Definition first_take (fs len : nat) : nat := if 7 <=? fs then fs - 7 else len - (7 - fs).

Definition ble_encode (fs : nat) (opcode tid iid : N) (data : bytes) : res perr (list bytes) :=
  if negb ((opcode <? 256) && (tid <? 256) && (iid <? 65536))%N then Crash else
  match data with
  | [] => Ok [ble_header opcode tid iid]
  | _ =>
      if (65536 <=? N.of_nat (length data))%N then Crash else
      let k := first_take fs (length data) in
      let first := ble_header opcode tid iid ++ le16 (N.of_nat (length data)) ++ firstn k data in
      if fs =? 2 then Err ValueError                (* range(0, n, 0) *)
      else if fs <? 2 then Ok [first]               (* negative step: empty range *)
      else Ok (first :: map (fun c => 128%N :: tid :: c) (chunks (fs - 2) (skipn k data)))
  end.

(* EncryptionKey.encrypt on each fragment, in order, counter as nonce *)
Fixpoint seal_seq (seal : N -> bytes -> bytes) (ctr : N) (l : list bytes) : list bytes :=
  match l with
  | [] => []
  | f :: r => seal ctr f :: seal_seq seal (ctr + 1)%N r
  end.

(* _write_pdu: all fragments are encoded and sealed before the first GATT write;
   result = the writes and the key's counter afterwards *)
Definition ble_write (seal : N -> bytes -> bytes) (ctr : N) (fs : nat) (opcode tid iid : N) (data : bytes)
  : res perr (list bytes * N) :=
  rmap (fun frs => (seal_seq seal ctr frs, (ctr + N.of_nat (length frs))%N)) (ble_encode fs opcode tid iid data).

Definition seal_plain (_ : N) (m : bytes) : bytes := m.
Definition open_plain (_ : N) (c : bytes) : option bytes := Some c.

(* ------------------------------------------------------------------ BLE: response *)

(* decode_pdu: (status, expected_length, data) *)
Definition ble_decode (etid : N) (d : bytes) : res perr (N * N * bytes) :=
  match d with
  | _control :: tid :: status :: rest =>
      if negb (status <=? 6)%N then Err ValueError          (* PDUStatus(status) *)
      else if negb (tid =? etid)%N then Err ValueError
      else match rest with
           | l0 :: l1 :: body => Ok (status, u16 l0 l1, body)
           | _ => Ok (status, 0%N, [])                       (* len(data) < 5 *)
           end
  | _ => Crash                                               (* struct.error *)
  end.

Definition ble_decode_cont (etid : N) (d : bytes) : res perr bytes :=
  match d with
  | control :: tid :: body =>
      if (N.land control 128 =? 0)%N then Err ValueError
      else if negb (tid =? etid)%N then Err ValueError
      else Ok body
  | _ => Crash
  end.

Definition open_frag (open : N -> bytes -> option bytes) (ctr : N) (f : bytes) : res perr bytes :=
  match open ctr f with Some p => Ok p | None => Err EncryptionError end.

(* the while loop of _read_pdu over the fragments the characteristic will deliver;
   returns the body, the fragments not read, and the decryption counter *)
Fixpoint read_more (open : N -> bytes -> option bytes) (ctr etid exp : N) (acc : bytes) (frags : list bytes)
  {struct frags} : res perr (bytes * list bytes * N) :=
  if (N.of_nat (length acc) <? exp)%N then
    match frags with
    | [] => Err Starved
    | f :: r =>
        rbind (open_frag open ctr f) (fun p =>
        rbind (ble_decode_cont etid p) (fun b =>
        read_more open (ctr + 1)%N etid exp (acc ++ b) r))
    end
  else Ok (acc, frags, ctr).

Definition read_pdu (open : N -> bytes -> option bytes) (ctr etid : N) (frags : list bytes)
  : res perr (N * bytes * list bytes * N) :=
  match frags with
  | [] => Err Starved
  | f :: r =>
      rbind (open_frag open ctr f) (fun p =>
      rbind (ble_decode etid p) (fun sed =>
        let '(status, exp, d) := sed in
        rbind (read_more open (ctr + 1)%N etid exp d r) (fun brc =>
          let '(body, rest, c) := brc in Ok (status, body, rest, c))))
  end.

(* ------------------------------------------------------------------ BLE: spec accessory
   A conformant accessory's view of a request (HAP-BLE 7.3.3/7.3.5): first fragment
   control(0) opcode tid iid16 [len16 body...], continuations (control with bit 7) tid body...;
   it accepts exactly the declared number of body bytes and no surplus fragment. *)
Definition acc_first (f : bytes) : option (N * N * N * N * bytes) :=
  match f with
  | c :: op :: t :: i0 :: i1 :: rest =>
      if negb (N.land c 142 =? 0)%N then None              (* continuation bit / type bits must be clear *)
      else match rest with
           | [] => Some (op, t, u16 i0 i1, 0%N, [])
           | l0 :: l1 :: b => Some (op, t, u16 i0 i1, u16 l0 l1, b)
           | _ => None
           end
  | _ => None
  end.

Fixpoint acc_more (t exp : N) (acc : bytes) (frags : list bytes) : option bytes :=
  match frags with
  | [] => if (N.of_nat (length acc) =? exp)%N then Some acc else None
  | f :: r =>
      if (N.of_nat (length acc) <? exp)%N then
        match f with
        | c :: t' :: b =>
            if (N.land c 128 =? 128)%N && (t' =? t)%N && negb (nil_b b) then acc_more t exp (acc ++ b) r else None
        | _ => None
        end
      else None
  end.

Definition acc_reassemble (frags : list bytes) : option (N * N * N * bytes) :=
  match frags with
  | [] => None
  | f :: r =>
      match acc_first f with
      | None => None
      | Some (op, t, i, exp, b) =>
          match acc_more t exp b r with
          | Some body => Some (op, t, i, body)
          | None => None
          end
      end
  end.

(* accessory behind an encrypted session: opens write j under counter ctr + j *)
Fixpoint open_seq (open : N -> bytes -> option bytes) (ctr : N) (l : list bytes) : option (list bytes) :=
  match l with
  | [] => Some []
  | c :: r =>
      match open ctr c, open_seq open (ctr + 1)%N r with
      | Some p, Some ps => Some (p :: ps)
      | _, _ => None
      end
  end.

(* what a conformant accessory sends back: header fragment + continuation fragments *)
Definition resp_first (c tid st total : N) (p0 : bytes) : bytes := c :: tid :: st :: le16 total ++ p0.
Definition resp_cont (tid : N) (cp : N * bytes) : bytes := fst cp :: tid :: snd cp.

(* toy AEAD used for the Examples and by the correspondence driver: a ciphertext
   opens under counter n iff it was sealed under n; overhead 16 bytes like the real tag *)
Definition toy_seal (n : N) (m : bytes) : bytes := le_enc 16 n ++ m.
Fixpoint bytes_eqb (a b : bytes) : bool :=
  match a, b with
  | [], [] => true
  | x :: a', y :: b' => (x =? y)%N && bytes_eqb a' b'
  | _, _ => false
  end.
Definition toy_open (n : N) (c : bytes) : option bytes :=
  if bytes_eqb (firstn 16 c) (le_enc 16 n) then Some (skipn 16 c) else None.

(* ------------------------------------------------------------------ CoAP *)

Inductive cres := CBody (b : bytes) | CStatus (s : N).   (* 256 = TID_MISMATCH, 257 = BAD_CONTROL *)

(* struct.pack("<BBBHH", 0, opcode, tid, iid, len(data)) + data *)
Definition coap_encode (opcode tid iid : N) (data : bytes) : res perr bytes :=
  if negb ((opcode <? 256) && (tid <? 256) && (iid <? 65536) && (N.of_nat (length data) <? 65536))%N then Crash
  else Ok (0%N :: opcode :: tid :: le16 iid ++ le16 (N.of_nat (length data)) ++ data).

Fixpoint coap_encode_from (opcode idx : N) (l : list (N * bytes)) : res perr bytes :=
  match l with
  | [] => Ok []
  | (iid, data) :: r =>
      rbind (coap_encode opcode idx iid data) (fun p =>
      rmap (app p) (coap_encode_from opcode (idx + 1)%N r))
  end.

(* encode_all_pdus: tid = position in zip(iids, data) *)
Definition coap_encode_all (opcode : N) (iids : list N) (datas : list bytes) : res perr bytes :=
  coap_encode_from opcode 0%N (combine iids datas).

(* decode_pdu: (body_len, body | status) *)
Definition coap_decode (etid : N) (d : bytes) : res perr (N * cres) :=
  match d with
  | c :: t :: s :: l0 :: l1 :: rest =>
      if negb (s <=? 6)%N then Err ValueError                 (* PDUStatus(status) *)
      else
        let bl := u16 l0 l1 in
        if negb (t =? etid)%N then Ok (bl, CStatus 256)
        else if negb (s =? 0)%N then Ok (bl, CStatus s)
        else if negb (N.land c 14 =? 2)%N then Ok (bl, CStatus 257)
        else Ok (bl, CBody (firstn (N.to_nat bl) rest))
  | _ => Crash                                                (* struct.error *)
  end.

(* decode_all_pdus; [d] is data[offset:] *)
Fixpoint coap_decode_all_f (fuel : nat) (idx : N) (d : bytes) : res perr (list cres) :=
  match fuel with
  | O => OutOfFuel
  | S f =>
      rbind (coap_decode idx d) (fun br =>
        let adv := 5 + N.to_nat (fst br) in
        if length d <=? adv then Ok [snd br]
        else rmap (cons (snd br)) (coap_decode_all_f f (idx + 1)%N (skipn adv d)))
  end.
Definition coap_decode_all (start : N) (d : bytes) : res perr (list cres) :=
  coap_decode_all_f (S (length d)) start d.

(* the loops "for idx, result in enumerate(pdu_results): ids[idx] ..." of
   _read_characteristics_exit (every entry) and _write/_subscribe/_unsubscribe exits
   (status entries only); ids[idx] beyond the list is an IndexError *)
Fixpoint zip_results {K : Type} (ids : list K) (rs : list cres) : res perr (list (K * cres)) :=
  match rs with
  | [] => Ok []
  | r :: rs' =>
      match ids with
      | [] => Crash
      | k :: ids' => rmap (cons (k, r)) (zip_results ids' rs')
      end
  end.
Definition is_status (r : cres) : bool := match r with CStatus _ => true | CBody _ => false end.
Definition coap_exit_all {K} (ids : list K) (rs : list cres) := zip_results ids rs.
Definition coap_exit_errors {K} (ids : list K) (rs : list cres) : res perr (list (K * cres)) :=
  rmap (filter (fun kr => is_status (snd kr))) (zip_results ids rs).

(* what a conformant accessory answers for item idx of a batch, and the outcome the
   controller must attribute to that item - stated without any offset arithmetic *)
Definition coap_item := (N * N * N * bytes)%type.   (* control, tid, status, body *)
Definition coap_render (it : coap_item) : bytes :=
  let '(c, t, s, b) := it in c :: t :: s :: le16 (N.of_nat (length b)) ++ b.
Definition coap_classify (idx : N) (it : coap_item) : cres :=
  let '(c, t, s, b) := it in
  if negb (t =? idx)%N then CStatus 256
  else if negb (s =? 0)%N then CStatus s
  else if negb (N.land c 14 =? 2)%N then CStatus 257
  else CBody b.
Fixpoint classify_from (idx : N) (items : list coap_item) : list cres :=
  match items with
  | [] => []
  | it :: r => coap_classify idx it :: classify_from (idx + 1)%N r
  end.
Definition coap_item_ok (it : coap_item) : bool :=
  let '(c, t, s, b) := it in (s <=? 6)%N && (N.of_nat (length b) <? 65536)%N.

(* spec accessory parse of a request batch: PDUs back to back, each
   control(0) opcode tid iid16 len16 body *)
Fixpoint coap_acc_parse (fuel : nat) (d : bytes) : option (list (N * N * N * bytes)) :=
  match fuel with
  | O => None
  | S f =>
      match d with
      | [] => Some []
      | c :: op :: t :: i0 :: i1 :: l0 :: l1 :: rest =>
          let n := N.to_nat (u16 l0 l1) in
          if negb (c =? 0)%N || (length rest <? n) then None
          else match coap_acc_parse f (skipn n rest) with
               | Some l => Some ((op, t, u16 i0 i1, firstn n rest) :: l)
               | None => None
               end
      | _ => None
      end
  end.
Fixpoint expect_from (opcode idx : N) (l : list (N * bytes)) : list (N * N * N * bytes) :=
  match l with
  | [] => []
  | (iid, data) :: r => (opcode, idx, iid, data) :: expect_from opcode (idx + 1)%N r
  end.

(* a Python dict filled by "results[key] = r" in list order, read back at key k:
   the value of the LAST pair whose key equals k *)
Fixpoint dict_get {K V : Type} (eqb : K -> K -> bool) (k : K) (l : list (K * V)) : option V :=
  match l with
  | [] => None
  | (k', v) :: r =>
      match dict_get eqb k r with
      | Some v' => Some v'
      | None => if eqb k k' then Some v else None
      end
  end.

(* ------------------------------------------------------------------ negotiated BLE fragment size
   ble/bleak.py _determine_fragment_size / AIOHomeKitBleakClient.determine_fragment_size:
   the ATT payload one GATT write may carry is mtu - 3 (or the backend's
   max_write_without_response_size when that is larger; 0 = not reported); inside a secure
   session the 16-byte tag is subtracted.  The lru_cache is keyed by every argument, i.e. it is
   semantically transparent: the size depends on (mtu, mwwr, overhead) only, never on what
   was asked before on the same connection. *)
Definition att_budget (mtu mwwr : nat) : nat :=
  if mwwr =? 0 then mtu - 3 else Nat.max mwwr (mtu - 3).
Definition det_fs (mtu mwwr overhead : nat) : nat := att_budget mtu mwwr - overhead.

(* _write_pdu on a connection with the given MTU: KEY_OVERHEAD_SIZE iff a session key is in use *)
Definition ble_session_write (seal : N -> bytes -> bytes) (enc : bool) (ctr : N) (mtu mwwr : nat)
           (opcode tid iid : N) (data : bytes) : res perr (list bytes * N) :=
  ble_write (if enc then seal else seal_plain) ctr (det_fs mtu mwwr (if enc then 16 else 0)) opcode tid iid data.

(* ------------------------------------------------------------------ CoAP write batch
   write_characteristics: _write_characteristics_enter looks every (aid, iid) up in the accessory
   database first; an unknown one is an AttributeError on None (Crash) before anything is sent.
   [known] = per position, whether the lookup succeeds; [values] = the value TLVs. *)
Definition coap_write_batch (known : list bool) (opcode : N) (iids : list N) (values : list bytes) : res perr bytes :=
  if forallb (fun b => b) known then coap_encode_all opcode iids values else Crash.

(* ------------------------------------------------------------------ BLE: a whole session (closed loop)
   ble_request called again and again on one connection: the controller's EncryptionKey /
   DecryptionKey counters (cst) persist between requests, so do the accessory's (ast).
   Keys: sealW/openW controller -> accessory, sealR/openR accessory -> controller.
   The accessory is the spec reassembler plus an arbitrary [responder] choosing, for the request it
   reassembled, control byte, status, body and how to cut the body into fragments. *)
Definition breq := (nat * N * N * N * bytes)%type.            (* fragment size, opcode, tid, iid, body *)
Definition bans := (N * N * bytes * list (N * bytes))%type.   (* control, status, first piece, continuation (control, piece) *)
Definition responder := (N * N * N * bytes) -> bans.
Definition ans_outcome (a : bans) : N * bytes :=
  let '(c, st, p0, conts) := a in (st, p0 ++ concat (map snd conts)).

Definition acc_response (c tid st : N) (p0 : bytes) (conts : list (N * bytes)) : list bytes :=
  resp_first c tid st (N.of_nat (length (p0 ++ concat (map snd conts)))) p0 :: map (resp_cont tid) conts.

Definition acc_handle (sealR : N -> bytes -> bytes) (openW : N -> bytes -> option bytes) (resp : responder)
           (ast : N * N) (ws : list bytes) : option (list bytes * (N * N)) :=
  match open_seq openW (fst ast) ws with
  | None => None
  | Some frs =>
      match acc_reassemble frs with
      | None => None
      | Some (op, t, i, b) =>
          let '(c, st, p0, conts) := resp (op, t, i, b) in
          let fr := seal_seq sealR (snd ast) (acc_response c t st p0 conts) in
          Some (fr, ((fst ast + N.of_nat (length ws))%N, (snd ast + N.of_nat (length fr))%N))
      end
  end.

Fixpoint ble_loop (sealW : N -> bytes -> bytes) (openR : N -> bytes -> option bytes)
         (sealR : N -> bytes -> bytes) (openW : N -> bytes -> option bytes) (resp : responder)
         (cst ast : N * N) (reqs : list breq) : res perr (list (N * bytes) * (N * N) * (N * N)) :=
  match reqs with
  | [] => Ok ([], cst, ast)
  | (fs, op, tid, iid, data) :: r =>
      rbind (ble_write sealW (fst cst) fs op tid iid data) (fun we =>
        match acc_handle sealR openW resp ast (fst we) with
        | None => Err Starved                                   (* the accessory does not answer *)
        | Some (fr, ast') =>
            rbind (read_pdu openR (snd cst) tid fr) (fun r4 =>
              let '(st, body, _unread, d') := r4 in
              rbind (ble_loop sealW openR sealR openW resp (snd we, d') ast' r) (fun oca =>
                let '(outs, c', a') := oca in Ok ((st, body) :: outs, c', a')))
        end)
  end.

(* a concrete, deterministic accessory used by the Examples and by the correspondence driver
   (the harness has an independent Python implementation of the same specification):
   status (op + iid + tid) mod 7, body = request body reversed, first piece iid mod 5 bytes,
   continuation pieces of 1 + tid mod 7 bytes with control 0x80 *)
Definition demo_responder : responder := fun rq =>
  let '(op, t, i, b) := rq in
  let body := rev b in
  let k := N.to_nat (i mod 5) in
  (2%N, ((op + i + t) mod 7)%N, firstn k body,
   map (fun c => (128%N, c)) (chunks (S (N.to_nat (t mod 7))) (skipn k body))).

(* ------------------------------------------------------------------ CoAP: _read_characteristics_exit in full
   For each result: a status becomes a status entry; a body is passed through decode_pdu_03
   ([dec], abstract: the Value TLV) unless empty; if the accessory database knows the iid
   ([known], lookup by iid only, as find_characteristic_by_iid does) and the body is non-empty, the
   decoded bytes are stored in that characteristic's raw_value (a cache write) and the entry is
   the characteristic's converted value (RConv), otherwise the entry is the decoded bytes. *)
Inductive rval := RStatus (s : N) | RRaw (b : bytes) | RConv (iid : N) (b : bytes).

Definition read_entry (dec : bytes -> bytes) (known : N -> bool) (iid : N) (r : cres) : rval * list (N * bytes) :=
  match r with
  | CStatus s => (RStatus s, [])
  | CBody b =>
      if nil_b b then (RRaw [], [])
      else if known iid then (RConv iid (dec b), [(iid, dec b)])
      else (RRaw (dec b), [])
  end.

Fixpoint coap_read_exit (dec : bytes -> bytes) (known : N -> bool) (ids : list (N * N)) (rs : list cres)
  : res perr (list ((N * N) * rval) * list (N * bytes)) :=
  match rs with
  | [] => Ok ([], [])
  | r :: rs' =>
      match ids with
      | [] => Crash                                            (* ids[idx]: IndexError *)
      | k :: ids' =>
          let ew := read_entry dec known (snd k) r in
          rmap (fun ec => ((k, fst ew) :: fst ec, snd ew ++ snd ec)) (coap_read_exit dec known ids' rs')
      end
  end.
