(* C12 extension - OVERLAPPING API calls on one IpPairing.

   Model/Subs.v runs every subscribe()/unsubscribe()/re-subscribe to completion inside one step.
   In the real code each of them is a coroutine that awaits one PUT per aid-run; HomeKitConnection
   serialises requests with a FIFO semaphore (concurrency_limit = 1), so several calls - and the
   re-subscribe the connector performs inside connection_made(True) - interleave at request
   granularity.  This machine makes that explicit:

     queue      the calls that have a request outstanding, FIFO: the head's request is on the wire,
                the others wait for the semaphore; a call that gets its answer and has more
                requests to send goes to the BACK of the queue (asyncio.Semaphore is fair)
     CStart     a caller starts subscribe(cs) / unsubscribe(cs): the synchronous prefix runs
                (subscriptions.update for subscribe; the not-connected shortcuts), payloads are
                prebuilt with itertools.groupby = consecutive runs of equal aid [runs]
     CAnswer r  the accessory answers the request on the wire
     CDrop      the accessory drops the session: the request on the wire and every queued one end
                with AccessoryDisconnectedError
     CConnUp o  the connector has a new secure session: listeners are told, the re-subscribe of the
                whole set becomes one more call in the queue; [o] is the iteration order of the
                Python set (the model orders the subscription set by it: all orders are covered
                by the theorems, the harness passes the order the implementation used)
     CBase e    AddL / DelL / EventMsg as in Model/Subs.v (an EVENT may arrive between a request
                and its response)

   [acc] is the accessory's side: the characteristics it will notify on the current session, as
   implied by the requests it has answered.  Definitions only; proofs in Proofs/SubsConc.v. *)
From Coq Require Import List NArith ZArith Bool.
From AHK Require Import Model.Subs.
Import ListNotations.

(* itertools.groupby(characteristics, key=itemgetter(0)): maximal runs of consecutive equal aids *)
Fixpoint runs (ids : list cid) : list (N * list cid) :=
  match ids with
  | [] => []
  | c :: t =>
      match runs t with
      | (a, g) :: r => if N.eqb (fst c) a then (a, c :: g) :: r else (fst c, [c]) :: (a, g) :: r
      | [] => [(fst c, [c])]
      end
  end.

(* the subscription set listed in the iteration order [ord] *)
Definition order_by (ord s : list cid) : list cid :=
  filter (fun c => mem c s) (union [] ord) ++ filter (fun c => negb (mem c ord)) s.

Inductive ckind := KSub | KUnsub | KResub.
Record proc := mkproc {
  pk : ckind;
  ptag : nat;                      (* which caller *)
  pids : list cid;                 (* the call's argument *)
  prem : list (N * list cid);      (* payloads not yet answered; the head is outstanding *)
  pacc : list cid                  (* ids seen in status rows so far *)
}.
Definition proc_ev (p : proc) : bool := match pk p with KUnsub => false | _ => true end.

Record cst := mkcst {
  base : st;
  queue : list proc;
  acc : list cid
}.
Definition cinit : cst := mkcst init [] [].

Inductive cevent :=
| CStart (sub : bool) (tag : nat) (cs : list cid)
| CAnswer (r : reply)
| CDrop
| CConnUp (ord : list cid)
| CBase (e : event).

Inductive cout :=
| CO (o : out)
| CRet (tag : nat) (r : retclass)                 (* the call of caller [tag] returned *)
| CAbort (tag : nat) (ev : bool) (ids : list cid). (* a queued request was abandoned unsent *)

Definition set_sup (s : st) (b : bool) : st := mkst (subs s) (lst s) b (conn s).
Definition set_conn (s : st) (b : bool) : st := mkst (subs s) (lst s) (sup s) b.
Definition set_subs (s : st) (x : list cid) : st := mkst x (lst s) (sup s) (conn s).

(* all payloads answered *)
Definition finish (p : proc) (s : st) : st * list cout :=
  match pk p with
  | KSub => (s, [CRet (ptag p) RetDict])
  | KUnsub => (set_subs s (diff (subs s) (diff (pids p) (pacc p))), [CRet (ptag p) RetDict])
  | KResub => (s, [])
  end.

(* its request ended with the AccessoryDisconnectedError class *)
Definition fail (p : proc) (s : st) : st * list cout :=
  match pk p with
  | KSub => (set_sup s false, [CRet (ptag p) RetDict])
  | KUnsub => (s, [CRet (ptag p) RetRaised])
  | KResub => (set_sup s false, [])
  end.

Definition head_group (p : proc) : list cid := match prem p with (_, g) :: _ => g | [] => [] end.

Fixpoint fail_queued (q : list proc) (s : st) : st * list cout :=
  match q with
  | [] => (s, [])
  | p :: t =>
      let '(s1, o1) := fail p s in
      let '(s2, o2) := fail_queued t s1 in
      (s2, CAbort (ptag p) (proc_ev p) (head_group p) :: o1 ++ o2)
  end.

Definition rejected (rows : list (cid * Z)) : list cid :=
  map fst (filter (fun r => negb (Z.eqb (snd r) 0)) rows).
Definition apply_ok (a : list cid) (ev : bool) (g rej : list cid) : list cid :=
  if ev then union a (diff g rej) else diff a (diff g rej).

Definition with_rem (p : proc) (rest : list (N * list cid)) (pa : list cid) : proc :=
  mkproc (pk p) (ptag p) (pids p) rest pa.

Definition answer_ok (s : cst) (p : proc) (q : list proc) (g : list cid) (rest : list (N * list cid))
           (rows : list (cid * Z)) (pr : putres) : cst * list cout :=
  let ev := proc_ev p in
  let pa := pacc p ++ map fst rows in
  let a' := apply_ok (acc s) ev g (rejected rows) in
  match rest with
  | [] => let '(b', o2) := finish (with_rem p [] pa) (base s) in
          (mkcst b' q a', CO (OPut ev g pr) :: o2)
  | _ :: _ => (mkcst (base s) (q ++ [with_rem p rest pa]) a', [CO (OPut ev g pr)])
  end.

Definition lose (s : cst) : cst * list cout :=
  match queue s with
  | [] => if conn (base s) then (mkcst (set_conn (base s) false) [] [], [CO OLost]) else (s, [])
  | p :: q =>
      let g := head_group p in
      let '(b1, o1) := fail p (set_conn (base s) false) in
      let '(b2, o2) := fail_queued q b1 in
      (mkcst b2 [] [], CO (OPut (proc_ev p) g PutDisc) :: CO OLost :: o1 ++ o2)
  end.

Definition canswer (s : cst) (r : reply) : cst * list cout :=
  match queue s with
  | [] => (s, [])
  | p :: q =>
      match prem p with
      | [] => (s, [])
      | (_, g) :: rest =>
          match r with
          | ROk => answer_ok s p q g rest [] PutOk
          | RStatus rows => answer_ok s p q g rest rows (PutStatus rows)
          | RDisc => lose s
          | RHttp4xx =>
              let '(b', o2) := fail p (base s) in
              (mkcst b' q (acc s), CO (OPut (proc_ev p) g Put4xx) :: o2)
          end
      end
  end.

Section ConcMachine.
  Variable raises : lid -> fevent -> bool.
  Variable acts : lid -> fevent -> list (bool * lid).

  Definition cstep (s : cst) (e : cevent) : cst * list cout :=
    let b := base s in
    match e with
    | CStart true tag cs =>
        let b1 := set_subs b (union (subs b) cs) in
        if negb (sup b) then (mkcst b1 (queue s) (acc s), [CRet tag RetNone])
        else if negb (conn b) then (mkcst b1 (queue s) (acc s), [CRet tag RetDict])
        else match runs cs with
             | [] => (mkcst b1 (queue s) (acc s), [CRet tag RetDict])
             | gs => (mkcst b1 (queue s ++ [mkproc KSub tag cs gs []]) (acc s), [])
             end
    | CStart false tag cs =>
        if negb (conn b) then (mkcst (set_subs b (diff (subs b) cs)) (queue s) (acc s), [CRet tag RetDict])
        else match runs cs with
             | [] => (mkcst (set_subs b (diff (subs b) (diff cs []))) (queue s) (acc s), [CRet tag RetDict])
             | gs => (mkcst b (queue s ++ [mkproc KUnsub tag cs gs []]) (acc s), [])
             end
    | CAnswer r => canswer s r
    | CDrop => lose s
    | CConnUp ord =>
        if conn b then (s, [])
        else
          let o0 := map CO (OSession :: notify raises (lst b) []) in
          let b1 := mkst (subs b) (reg_after acts b []) (sup b) true in
          if negb (sup b) then (mkcst b1 [] [], o0)
          else match runs (order_by ord (subs b)) with
               | [] => (mkcst b1 [] [], o0)
               | gs => (mkcst b1 [mkproc KResub 0 (subs b) gs []] [], o0)
               end
    | CBase e =>
        match e with
        | AddL _ | DelL _ | EventMsg _ =>
            let '(b1, o) := step raises acts b e in (mkcst b1 (queue s) (acc s), map CO o)
        | _ => (s, [])
        end
    end.

  Fixpoint crun_from (s : cst) (h : list cevent) : cst * list cout :=
    match h with
    | [] => (s, [])
    | e :: t =>
        let '(s1, o1) := cstep s e in
        let '(s2, o2) := crun_from s1 t in
        (s2, o1 ++ o2)
    end.
  Definition crun (h : list cevent) : cst * list cout := crun_from cinit h.
End ConcMachine.

(* ---------------------------------------------------------------- specification vocabulary *)
Definition ccutoff (x : cout) : bool :=
  match x with
  | CO o => cutoff o
  | CAbort _ true _ => true
  | _ => false
  end.

(* ids some queued subscribe / re-subscribe still has to send *)
Definition pending_true (q : list proc) : list cid :=
  flat_map (fun p => if proc_ev p then concat (map snd (prem p)) else []) q.

(* a history in which nobody unsubscribes and the accessory rejects nothing *)
Definition benign (e : cevent) : bool :=
  match e with
  | CStart false _ _ => false
  | CAnswer (RStatus _) => false
  | _ => true
  end.

Definition wf_queue (q : list proc) : Prop := Forall (fun p => prem p <> []) q.

(* the caller-level intent: the last call that names c (by start order) *)
Fixpoint last_call (c : cid) (h : list cevent) (cur : option bool) : option bool :=
  match h with
  | [] => cur
  | CStart sub _ cs :: t => last_call c t (if mem c cs then Some sub else cur)
  | _ :: t => last_call c t cur
  end.
