(* C15, object level: TLV.encode_list / TLV.decode_bytearray called on caller-owned Python objects,
   several times in one process.

   Model/Tlv.v describes the codec as functions of VALUES.  The code works on OBJECTS: the items of the
   list handed to encode_list are bytes (immutable) or bytearray (mutable) objects that the caller keeps
   and may encode again (retry, re-send on another connection) or compare with a decode result; the local
   variable `value` of the fragmentation loop starts as an ALIAS of the caller's object; decode results are
   bytearray objects the caller may extend in place.  This file models that level: a store of objects, the
   fragmentation loop with its local variable (alias or fresh object) written with the object primitives
   the code uses (len, value[:n] = read, value = value[n:] = rebinding to a NEW object - no primitive that
   writes through the alias), decode allocating fresh result objects, and a session machine that runs any
   history of encode / decode / caller-side append on one store.  Definitions only; proofs: Proofs/TlvObj.v. *)
From Coq Require Import List NArith Arith Bool.
From AHK Require Import Lib.Res Lib.ByteStr Model.Tlv.
Import ListNotations.

Inductive okind := KBytes | KByteArray.
Definition obj := (okind * bytes)%type.
Definition store := list obj.                 (* object identity = index into the store *)
Definition ref := nat.
Definition arg := list (N * ref).             (* the caller's item list: type, value object *)

Definition load (s : store) (r : ref) : option bytes := option_map snd (nth_error s r).

Fixpoint deref (s : store) (a : arg) : option (list item) :=
  match a with
  | [] => Some []
  | (k, r) :: t =>
      match load s r, deref s t with
      | Some v, Some d => Some ((k, v) :: d)
      | _, _ => None
      end
  end.

(* the encoder's local variable `value` *)
Inductive local := LAlias (r : ref) | LFresh (v : bytes).
Definition lread (s : store) (l : local) : option bytes :=
  match l with LAlias r => load s r | LFresh v => Some v end.

Fixpoint set_nth {A} (l : list A) (n : nat) (x : A) : list A :=
  match l, n with
  | [], _ => []
  | _ :: t, O => x :: t
  | h :: t, S m => h :: set_nth t m x
  end.

(* `del value[:n]`: the primitive /repo does NOT use.  Through an alias of a bytearray it writes the
   caller's object; on a fresh object it only changes the local; on bytes it is a TypeError (Crash). *)
Definition del_prefix (s : store) (l : local) (n : nat) : option (store * local) :=
  match l with
  | LFresh v => Some (s, LFresh (skipn n v))
  | LAlias r =>
      match nth_error s r with
      | Some (KByteArray, v) => Some (set_nth s r (KByteArray, skipn n v), l)
      | _ => None
      end
  end.

Section OBJ.
  Variable F : nat.

  (* while len(value) > 0: result.append(key); result.append(min(len,255)); result += value[:length];
     value = value[length:]           -- the store is threaded through, nothing writes it *)
  Fixpoint enc_while (fuel : nat) (s : store) (k : N) (l : local) (out : bytes)
    : res tlv_err (store * bytes) :=
    match fuel with
    | O => OutOfFuel
    | S f =>
        match lread s l with
        | None => Crash
        | Some v =>
            if nil_b v then Ok (s, out)
            else if F <? length v
                 then enc_while f s k (LFresh (skipn F v)) (out ++ k :: N.of_nat F :: firstn F v)
                 else enc_while f s k (LFresh (skipn (length v) v))
                                (out ++ k :: N.of_nat (length v) :: firstn (length v) v)
        end
    end.

  Fixpoint enc_items (s : store) (a : arg) (out : bytes) : res tlv_err (store * bytes) :=
    match a with
    | [] => Ok (s, out)
    | (k, r) :: t =>
        match load s r with
        | None => Crash
        | Some v =>
            if negb (valid_key k) then Err ValueError
            else if N.eqb k 255 && negb (nil_b v) then Err ValueError
            else
              let out1 := if nil_b v then out ++ [k; 0%N] else out in
              rbind (enc_while (S (S (length v))) s k (LAlias r) out1)
                    (fun so => enc_items (fst so) t (snd so))
        end
    end.
  Definition enc_obj (s : store) (a : arg) := enc_items s a [].

  (* the neighbouring implementation (round-8 seed O): fragments are taken off the front of the value
     with del value[:F] after `if not isinstance(value, bytearray): value = bytearray(value)`.
     Kept only to show that the store component distinguishes it (Props: c15_inplace_variant_differs). *)
  Fixpoint enc_while_inplace (fuel : nat) (s : store) (k : N) (l : local) (out : bytes)
    : res tlv_err (store * bytes) :=
    match fuel with
    | O => OutOfFuel
    | S f =>
        match lread s l with
        | None => Crash
        | Some v =>
            if nil_b v then Ok (s, out)
            else match del_prefix s l F with
                 | Some (s', l') =>
                     enc_while_inplace f s' k l' (out ++ k :: N.of_nat (length (firstn F v)) :: firstn F v)
                 | None => Crash
                 end
        end
    end.
  Definition enc_item_inplace (s : store) (k : N) (r : ref) : res tlv_err (store * bytes) :=
    match nth_error s r with
    | Some (kind, v) =>
        if length v <=? F then Ok (s, k :: N.of_nat (length v) :: v)
        else enc_while_inplace (S (length v)) s k
               (match kind with KByteArray => LAlias r | KBytes => LFresh v end) []
    | None => Crash
    end.

  (* ---- decode: result values are NEW bytearray objects ---------------- *)
  Definition alloc (s : store) (items : list item) : store * arg :=
    (s ++ map (fun kv => (KByteArray, snd kv)) items,
     combine (map fst items) (seq (length s) (length items))).

  (* ---- a session: any history of calls on one store ------------------- *)
  Inductive op :=
  | OEnc (a : arg)                    (* t = TLV.encode_list(a); t is a new bytearray object *)
  | ODec (e : list N) (r : ref)       (* TLV.decode_bytearray / decode_bytes of object r, filter e *)
  | OAppend (r : ref) (bs : bytes).   (* the caller: obj_r += bs (bytearray only) *)

  Inductive out :=
  | REnc (t : res tlv_err bytes)      (* on Ok the result object is the last one of the store *)
  | RDec (a : res tlv_err arg)
  | RApp (done : bool).

  Definition step (s : store) (o : op) : store * out :=
    match o with
    | OEnc a =>
        match enc_obj s a with
        | Ok (s', t) => (s' ++ [(KByteArray, t)], REnc (Ok t))
        | Err e => (s, REnc (Err e))
        | Crash => (s, REnc Crash)
        | OutOfFuel => (s, REnc OutOfFuel)
        end
    | ODec e r =>
        match load s r with
        | None => (s, RDec Crash)
        | Some bs =>
            match decode_exp e bs with
            | Ok items => let sa := alloc s items in (fst sa, RDec (Ok (snd sa)))
            | Err x => (s, RDec (Err x))
            | Crash => (s, RDec Crash)
            | OutOfFuel => (s, RDec OutOfFuel)
            end
        end
    | OAppend r bs =>
        match nth_error s r with
        | Some (KByteArray, v) => (set_nth s r (KByteArray, v ++ bs), RApp true)
        | _ => (s, RApp false)
        end
    end.

  Fixpoint run (s : store) (ops : list op) : store * list out :=
    match ops with
    | [] => (s, [])
    | o :: r => let so := step s o in let sr := run (fst so) r in (fst sr, snd so :: snd sr)
    end.

  (* the value-level meaning of one call: what Model/Tlv.v says about the values the objects hold NOW *)
  Definition spec_out (s : store) (o : op) : option out :=
    match o with
    | OEnc a => option_map (fun d => REnc (encode_list F d)) (deref s a)
    | ODec e r => option_map (fun bs => RDec (match decode_exp e bs with
                                                | Ok items => Ok (snd (alloc s items))
                                                | Err x => Err x | Crash => Crash | OutOfFuel => OutOfFuel end))
                             (load s r)
    | OAppend r bs => Some (RApp (match nth_error s r with Some (KByteArray, _) => true | _ => false end))
    end.
End OBJ.

Definition tlv_obj_run := run 255.
Definition tlv_obj_step := step 255.
Definition tlv_enc_obj := enc_obj 255.
