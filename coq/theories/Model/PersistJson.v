(* C20 (part iii) - a concrete JSON codec for the two files, so that the crash theorems no longer
   rest on hypotheses about an abstract [print]/[parse].

   Lexical level: a document is a tree of null / booleans / NUMBER TOKENS / STRING TOKENS (the bytes
   between the quotes, escapes not decoded) / arrays / objects.  That is exactly the level at which
   truncation safety is decided (brackets, quotes, commas, colons, white space); decoding escapes
   and converting number tokens is outside this model.
   [jprint ind] is orjson's output: compact ([ind = false], hkjson.dumps, the cache file) or
   OPT_INDENT_2 ([ind = true], hkjson.dumps_indented, the pairing file).
   [jparse] is a recursive-descent parser that accepts white space anywhere JSON allows it
   (definitions only; fuel bounds the nesting depth / the number of elements and is always
   sufficient for printed documents - lemma jparse_jprint). *)
From Coq Require Import List NArith Arith Bool Lia.
From AHK Require Import Lib.Res Lib.ByteStr Model.Persist.
Import ListNotations.

Inductive json :=
| JN
| JB (b : bool)
| JNumT (tok : bytes)
| JStrT (tok : bytes)
| JA (l : list json)
| JO (l : list (bytes * json)).

(* ---- characters ---- *)
Definition is_ws (c : N) : bool := N.eqb c 32 || N.eqb c 10 || N.eqb c 13 || N.eqb c 9.
Definition is_digit (c : N) : bool := N.leb 48 c && N.leb c 57.
Definition is_numc (c : N) : bool :=
  is_digit c || N.eqb c 45 || N.eqb c 43 || N.eqb c 46 || N.eqb c 101 || N.eqb c 69.
Definition is_esc (c : N) : bool :=            (* what may follow a backslash *)
  N.eqb c 34 || N.eqb c 92 || N.eqb c 47 || N.eqb c 98 || N.eqb c 102 || N.eqb c 110 || N.eqb c 114
  || N.eqb c 116 || N.eqb c 117.

Fixpoint skip_ws (s : bytes) : bytes :=
  match s with
  | c :: r => if is_ws c then skip_ws r else s
  | [] => []
  end.

(* number token: the maximal run of number characters; must start with a digit or '-' *)
Fixpoint span_num (s : bytes) : bytes * bytes :=
  match s with
  | c :: r => if is_numc c then let (a, b) := span_num r in (c :: a, b) else ([], s)
  | [] => ([], [])
  end.
(* the JSON number grammar as an automaton: optional minus; 0 or a non-zero digit followed by digits;
   optional fraction (dot, one or more digits); optional exponent (e or E, optional sign, one or more digits) *)
Inductive nst := NStart | NMinus | NZero | NInt | NDot | NFrac | NExp | NExpSign | NExpDig | NBad.
Definition nstep (st : nst) (c : N) : nst :=
  let d := is_digit c in
  let e := N.eqb c 101 || N.eqb c 69 in
  match st with
  | NStart => if N.eqb c 45 then NMinus else if N.eqb c 48 then NZero else if d then NInt else NBad
  | NMinus => if N.eqb c 48 then NZero else if d then NInt else NBad
  | NZero => if N.eqb c 46 then NDot else if e then NExp else NBad
  | NInt => if d then NInt else if N.eqb c 46 then NDot else if e then NExp else NBad
  | NDot => if d then NFrac else NBad
  | NFrac => if d then NFrac else if e then NExp else NBad
  | NExp => if N.eqb c 43 || N.eqb c 45 then NExpSign else if d then NExpDig else NBad
  | NExpSign => if d then NExpDig else NBad
  | NExpDig => if d then NExpDig else NBad
  | NBad => NBad
  end.
Definition num_gram (t : bytes) : bool :=
  match fold_left nstep t NStart with NZero | NInt | NFrac | NExpDig => true | _ => false end.

Definition num_ok (t : bytes) : bool :=
  match t with
  | c :: _ => (is_digit c || N.eqb c 45) && forallb is_numc t && num_gram t
  | [] => false
  end.

(* string token: up to the closing quote; control characters are rejected, a backslash must be
   followed by an escape character *)
Fixpoint scan_str (s : bytes) : option (bytes * bytes) :=
  match s with
  | [] => None
  | c :: r =>
      if N.eqb c 34 then Some ([], r)
      else if N.eqb c 92 then
        match r with
        | e :: r' => if is_esc e then
                       match scan_str r' with Some (t, r'') => Some (c :: e :: t, r'') | None => None end
                     else None
        | [] => None
        end
      else if N.ltb c 32 then None
      else match scan_str r with Some (t, r') => Some (c :: t, r') | None => None end
  end.
Fixpoint str_ok (t : bytes) : bool :=
  match t with
  | [] => true
  | c :: r =>
      if N.eqb c 34 then false
      else if N.eqb c 92 then match r with e :: r' => is_esc e && str_ok r' | [] => false end
      else negb (N.ltb c 32) && str_ok r
  end.

(* literal: strip a fixed prefix *)
Fixpoint strip (pre s : bytes) : option bytes :=
  match pre with
  | [] => Some s
  | a :: pre' => match s with b :: s' => if N.eqb a b then strip pre' s' else None | [] => None end
  end.
Definition lit_null : bytes := [110; 117; 108; 108]%N.
Definition lit_true : bytes := [116; 114; 117; 101]%N.
Definition lit_false : bytes := [102; 97; 108; 115; 101]%N.

(* ---- printer ---- *)
Definition nl (ind : bool) (k : nat) : bytes := if ind then 10%N :: repeat 32%N (2 * k) else [].
Definition colon (ind : bool) : bytes := if ind then [58; 32]%N else [58]%N.
Definition quote (t : bytes) : bytes := 34%N :: t ++ [34%N].

Fixpoint join (sep : bytes) (l : list bytes) : bytes :=
  match l with
  | [] => []
  | [x] => x
  | x :: r => x ++ sep ++ join sep r
  end.

Fixpoint jpr (ind : bool) (k : nat) (v : json) : bytes :=
  match v with
  | JN => lit_null
  | JB true => lit_true
  | JB false => lit_false
  | JNumT t => t
  | JStrT t => quote t
  | JA [] => [91; 93]%N
  | JA l => 91%N :: join [44%N] (map (fun x => nl ind (S k) ++ jpr ind (S k) x) l) ++ nl ind k ++ [93%N]
  | JO [] => [123; 125]%N
  | JO l => 123%N :: join [44%N] (map (fun kv => nl ind (S k) ++ quote (fst kv) ++ colon ind ++ jpr ind (S k) (snd kv)) l)
                  ++ nl ind k ++ [125%N]
  end.
Definition jprint (ind : bool) (v : json) : bytes := jpr ind 0 v.

(* ---- parser ---- *)
Section Loops.
  Variable p : bytes -> option (json * bytes).       (* the value parser one nesting level down *)

  (* after '[' and a first non-']' : v (, v)* ] *)
  Fixpoint elems (n : nat) (s : bytes) : option (list json * bytes) :=
    match n with
    | O => None
    | S n' =>
        match p s with
        | Some (v, r1) =>
            match skip_ws r1 with
            | c :: r2 =>
                if N.eqb c 44 then match elems n' r2 with Some (l, r3) => Some (v :: l, r3) | None => None end
                else if N.eqb c 93 then Some ([v], r2)
                else None
            | [] => None
            end
        | None => None
        end
    end.

  (* after '{' and a first non-'}' : "k" : v (, "k" : v)* } *)
  Fixpoint members (n : nat) (s : bytes) : option (list (bytes * json) * bytes) :=
    match n with
    | O => None
    | S n' =>
        match skip_ws s with
        | q :: r0 =>
            if N.eqb q 34 then
              match scan_str r0 with
              | Some (key, r1) =>
                  match skip_ws r1 with
                  | c :: r2 =>
                      if N.eqb c 58 then
                        match p r2 with
                        | Some (v, r3) =>
                            match skip_ws r3 with
                            | d :: r4 =>
                                if N.eqb d 44 then
                                  match members n' r4 with Some (l, r5) => Some ((key, v) :: l, r5) | None => None end
                                else if N.eqb d 125 then Some ([(key, v)], r4)
                                else None
                            | [] => None
                            end
                        | None => None
                        end
                      else None
                  | [] => None
                  end
              | None => None
              end
            else None
        | [] => None
        end
    end.
End Loops.

Fixpoint pv (f : nat) (s : bytes) {struct f} : option (json * bytes) :=
  match f with
  | O => None
  | S f' =>
      match skip_ws s with
      | [] => None
      | c :: r =>
          if N.eqb c 34 then
            match scan_str r with Some (t, r') => Some (JStrT t, r') | None => None end
          else if N.eqb c 91 then
            match skip_ws r with
            | [] => None
            | c2 :: r' =>
                if N.eqb c2 93 then Some (JA [], r')
                else match elems (pv f') (length r) r with Some (l, r'') => Some (JA l, r'') | None => None end
            end
          else if N.eqb c 123 then
            match skip_ws r with
            | [] => None
            | c2 :: r' =>
                if N.eqb c2 125 then Some (JO [], r')
                else match members (pv f') (length r) r with Some (l, r'') => Some (JO l, r'') | None => None end
            end
          else if N.eqb c 110 then
            match strip lit_null (c :: r) with Some r' => Some (JN, r') | None => None end
          else if N.eqb c 116 then
            match strip lit_true (c :: r) with Some r' => Some (JB true, r') | None => None end
          else if N.eqb c 102 then
            match strip lit_false (c :: r) with Some r' => Some (JB false, r') | None => None end
          else if is_numc c then
            match span_num (c :: r) with (t, r') => if num_ok t then Some (JNumT t, r') else None end
          else None
      end
  end.

Definition jparse (s : bytes) : option json :=
  match pv (S (length s)) s with
  | Some (v, r) => match skip_ws r with [] => Some v | _ => None end
  | None => None
  end.

(* ---- well-formed documents: tokens are tokens ---- *)
Fixpoint wfj (v : json) : bool :=
  match v with
  | JN | JB _ => true
  | JNumT t => num_ok t
  | JStrT t => str_ok t
  | JA l => forallb wfj l
  | JO l => forallb (fun kv => str_ok (fst kv) && wfj (snd kv)) l
  end.
Definition is_container (v : json) : bool := match v with JA _ | JO _ => true | _ => false end.

Fixpoint depth (v : json) : nat :=
  match v with
  | JA l => S (fold_right (fun x a => Nat.max (depth x) a) 0 l)
  | JO l => S (fold_right (fun kv a => Nat.max (depth (snd kv)) a) 0 l)
  | _ => 0
  end.

(* ---- the cache document {"pairings": c} ---- *)
Definition k_pairings : bytes := [112; 97; 105; 114; 105; 110; 103; 115]%N.
Definition jwrap (c : json) : json := JO [(k_pairings, c)].
Fixpoint jlook (k : bytes) (l : list (bytes * json)) : option json :=
  match l with
  | [] => None
  | (k', v) :: r => if bytes_eqb k' k then Some v else jlook k r
  end.
(* doc["pairings"]: TypeError / KeyError = None *)
Definition jget_pairings (d : json) : option json :=
  match d with JO l => jlook k_pairings l | _ => None end.
