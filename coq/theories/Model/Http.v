(* Model of aiohomekit/http/response.py (HttpResponse.parse, is_read_completely,
   get_http_name) and of the feeding loop
   aiohomekit/controller/ip/connection.py::InsecureHomeKitProtocol.data_received.
   Definitions only; proofs are in Proofs/Http*.v.

   The parser state is (pst, raw): the fields of the current HttpResponse and
   its _raw_response buffer.  [step] is one iteration of one of the loops of
   parse() (or the Content-Length take, or completion + dispatch); [drain]
   iterates it until the parser waits for more bytes; [hfeed] is data_received.

   Outcomes the property does not cover are absorbing [Halt] states:
     Crashed     a Python exception (HttpException, ValueError from int(),
                 IndexError from line[1], RuntimeError "Unknown http type")
     Illformed   the message holds Transfer-Encoding: chunked AND a positive
                 Content-Length, or a negative chunk size: the code goes on
                 parsing these, but in a segmentation-dependent way
     Unmodelled  a status/header line with a byte >= 0x80 (str.decode(),
                 unicode strip()/title() are modelled for ASCII only)        *)
From Coq Require Import List NArith ZArith Arith Bool.
From AHK Require Import Lib.ByteStr.
Import ListNotations.

(* ---------------------------------------------------------------- byte helpers *)

Fixpoint beq (a b : bytes) : bool :=
  match a, b with
  | [], [] => true
  | x :: a', y :: b' => N.eqb x y && beq a' b'
  | _, _ => false
  end.

Definition starts_lf (t : bytes) : bool :=
  match t with y :: _ => N.eqb y 10 | [] => false end.

(* bytearray.find(b"\r\n") + the two slices: Some (line, rest) *)
Fixpoint find_crlf (l : bytes) : option (bytes * bytes) :=
  match l with
  | [] => None
  | x :: t =>
      if N.eqb x 13 && starts_lf t then Some ([], tl t)
      else match find_crlf t with
           | Some (a, r) => Some (x :: a, r)
           | None => None
           end
  end.

(* split at the first occurrence of byte c *)
Fixpoint split1 (c : N) (l : bytes) : option (bytes * bytes) :=
  match l with
  | [] => None
  | x :: t =>
      if N.eqb x c then Some ([], t)
      else match split1 c t with
           | Some (a, r) => Some (x :: a, r)
           | None => None
           end
  end.

(* bytes.strip() / int(bytes) whitespace, and str.strip() / int(str) whitespace (ASCII part) *)
Definition ws_b (x : N) : bool := (N.leb 9 x && N.leb x 13) || N.eqb x 32.
Definition ws_s (x : N) : bool := ws_b x || (N.leb 28 x && N.leb x 31).

Fixpoint lstrip (w : N -> bool) (l : bytes) : bytes :=
  match l with
  | x :: t => if w x then lstrip w t else l
  | [] => []
  end.
Definition strip (w : N -> bool) (l : bytes) : bytes := rev (lstrip w (rev (lstrip w l))).

Definition is_lower (x : N) : bool := N.leb 97 x && N.leb x 122.
Definition is_upper (x : N) : bool := N.leb 65 x && N.leb x 90.

(* str.title() on ASCII *)
Fixpoint title_go (prev : bool) (l : bytes) : bytes :=
  match l with
  | [] => []
  | x :: t =>
      if is_lower x then (if prev then x else (x - 32)%N) :: title_go true t
      else if is_upper x then (if prev then (x + 32)%N else x) :: title_go true t
      else x :: title_go false t
  end.
Definition title (l : bytes) : bytes := title_go false l.
Definition lower (l : bytes) : bytes := map (fun x => if is_upper x then (x + 32)%N else x) l.
Definition ascii (l : bytes) : bool := forallb (fun x => N.ltb x 128) l.

(* ---------------------------------------------------------------- int() *)

Definition digit10 (x : N) : option N :=
  if N.leb 48 x && N.leb x 57 then Some (x - 48)%N else None.
Definition digit16 (x : N) : option N :=
  if N.leb 48 x && N.leb x 57 then Some (x - 48)%N
  else if N.leb 97 x && N.leb x 102 then Some (x - 87)%N
  else if N.leb 65 x && N.leb x 70 then Some (x - 55)%N
  else None.

(* digits with single underscores between digits (PEP 515) *)
Fixpoint digits_go (dig : N -> option N) (base : N) (l : bytes) (acc : N) (prev_digit : bool)
  : option N :=
  match l with
  | [] => if prev_digit then Some acc else None
  | x :: t =>
      if N.eqb x 95 then (if prev_digit then digits_go dig base t acc false else None)
      else match dig x with
           | Some d => digits_go dig base t (acc * base + d)%N true
           | None => None
           end
  end.

Definition signed (f : bytes -> option N) (l : bytes) : option Z :=
  match l with
  | x :: t =>
      if N.eqb x 43 then option_map Z.of_N (f t)
      else if N.eqb x 45 then option_map (fun n => Z.opp (Z.of_N n)) (f t)
      else option_map Z.of_N (f l)
  | [] => None
  end.

(* number of decimal digit characters (sign, underscores, blanks do not count) *)
Definition ndigits (l : bytes) : N :=
  fold_left (fun n x => if N.leb 48 x && N.leb x 57 then (n + 1)%N else n) l 0%N.

(* int(x) / int(x, 10): None = ValueError.  CPython (sys.int_info.default_max_str_digits)
   refuses decimal strings of more than 4300 digits, leading zeros included; there is
   no such limit for base 16. *)
Definition max_str_digits : N := 4300.
Definition int10 (w : N -> bool) (l : bytes) : option Z :=
  if N.ltb max_str_digits (ndigits (strip w l)) then None
  else signed (fun t => digits_go digit10 10 t 0 false) (strip w l).

(* after the sign: optional 0x / 0X and one optional underscore *)
Definition strip_0x (t : bytes) : bytes :=
  match t with
  | z :: x :: r =>
      if N.eqb z 48 && (N.eqb x 120 || N.eqb x 88)
      then match r with
           | u :: r' => if N.eqb u 95 then r' else r
           | [] => r
           end
      else t
  | _ => t
  end.

(* int(x, 16) on bytes *)
Definition int16 (l : bytes) : option Z :=
  signed (fun t => digits_go digit16 16 (strip_0x t) 0 false) (strip ws_b l).

(* ---------------------------------------------------------------- parser state *)

Inductive phase := PreStatus | Headers | Body.
Inductive kind := KHttp | KEvent.
Inductive stopkind := Crashed | Illformed | Unmodelled.

Record pst := mkP {
  ph : phase;
  chunked : bool;          (* _is_chunked *)
  clen : Z;                (* _content_length, -1 = none *)
  version : bytes;
  code : Z;
  reason : bytes;
  hdrs : list (bytes * bytes);
  body : bytes }.

Record msg := mkM {
  m_kind : kind;
  m_version : bytes;
  m_code : Z;
  m_reason : bytes;
  m_headers : list (bytes * bytes);
  m_body : bytes }.

Definition init : pst := mkP PreStatus false (-1) [] 0 [] [] [].

Definition set_body (p : pst) (b : bytes) : pst :=
  mkP (ph p) (chunked p) (clen p) (version p) (code p) (reason p) (hdrs p) b.
Definition set_ph (p : pst) (x : phase) : pst :=
  mkP x (chunked p) (clen p) (version p) (code p) (reason p) (hdrs p) (body p).
Definition add_hdr (p : pst) (ck : bool) (cl : Z) (h : bytes * bytes) : pst :=
  mkP (ph p) ck cl (version p) (code p) (reason p) (hdrs p ++ [h]) (body p).

Inductive lres := LNext (p : pst) | LEmit (m : msg) | LStop (k : stopkind).

Definition s_http : bytes := [104;116;116;112]%N.
Definition s_event : bytes := [101;118;101;110;116]%N.
Definition s_te : bytes := [84;114;97;110;115;102;101;114;45;69;110;99;111;100;105;110;103]%N.
Definition s_chunked : bytes := [99;104;117;110;107;101;100]%N.
Definition s_cl : bytes := [67;111;110;116;101;110;116;45;76;101;110;103;116;104]%N.

(* get_http_name().lower() and the dispatch in data_received *)
Definition kind_of (v : bytes) : option kind :=
  let n := lower (match split1 47 v with Some (a, _) => a | None => v end) in
  if beq n s_http then Some KHttp
  else if beq n s_event then Some KEvent
  else None.

(* the message is complete: dispatch it (RuntimeError for an unknown kind) *)
Definition finish (p : pst) : lres :=
  match kind_of (version p) with
  | Some k => LEmit (mkM k (version p) (code p) (reason p) (hdrs p) (body p))
  | None => LStop Crashed
  end.

(* status line: line.split(b" ", 2), len != 3 -> HttpException; int(line[1]) *)
Definition on_status (p : pst) (l : bytes) : lres :=
  match split1 32 l with
  | None => LStop Crashed
  | Some (v, r1) =>
      match split1 32 r1 with
      | None => LStop Crashed
      | Some (c, rs) =>
          if negb (ascii l) then LStop Unmodelled
          else match int10 ws_b c with
               | None => LStop Crashed
               | Some n => LNext (mkP Headers (chunked p) (clen p) v n rs (hdrs p) (body p))
               end
      end
  end.

(* the empty line after the headers; is_read_completely() right after it *)
Definition header_end (p : pst) : lres :=
  if chunked p then
    (if Z.ltb 0 (clen p) then LStop Illformed else LNext (set_ph p Body))
  else if Z.eqb (clen p) (-1) || Z.eqb (clen p) 0 then finish (set_ph p Body)
  else LNext (set_ph p Body).

(* one header line: line.split(b":", 1), line[1] -> IndexError without a colon *)
Definition on_header (p : pst) (l : bytes) : lres :=
  if nil_b l then header_end p
  else
    match split1 58 l with
    | None => LStop Crashed
    | Some (n, v) =>
        if negb (ascii l) then LStop Unmodelled
        else
          let name := title (strip ws_s n) in
          let value := strip ws_s v in
          if beq name s_te
          then LNext (add_hdr p (chunked p || beq value s_chunked) (clen p) (name, value))
          else if beq name s_cl
          then match int10 ws_s value with
               | None => LStop Crashed
               | Some z => LNext (add_hdr p (chunked p) z (name, value))
               end
          else LNext (add_hdr p (chunked p) (clen p) (name, value))
    end.

(* ---------------------------------------------------------------- one step *)

Inductive outcome :=
| Wait                               (* needs more bytes; nothing changes *)
| Next (p : pst) (r : bytes)
| Emit (m : msg) (r : bytes)         (* message delivered; a fresh HttpResponse gets r *)
| Stop (k : stopkind).

Definition lift (x : lres) (rest : bytes) : outcome :=
  match x with
  | LNext p => Next p rest
  | LEmit m => Emit m rest
  | LStop k => Stop k
  end.

Definition line_step (f : pst -> bytes -> lres) (p : pst) (r : bytes) : outcome :=
  match find_crlf r with
  | None => Wait
  | Some (l, rest) => lift (f p l) rest
  end.

(* one iteration of the chunked loop, with the put-back as [Wait] *)
Definition chunk_step (p : pst) (r : bytes) : outcome :=
  match find_crlf r with
  | None => Wait
  | Some (l, rest) =>
      match int16 l with
      | None => Stop Crashed
      | Some z =>
          if Z.ltb z 0 then Stop Illformed
          else if Z.ltb (Z.of_nat (length rest)) (z + 2) then Wait
          else if Z.eqb z 0 then lift (finish p) (skipn 2 rest)
          else Next (set_body p (body p ++ firstn (Z.to_nat z) rest))
                    (skipn (Z.to_nat z + 2) rest)
      end
  end.

(* Content-Length body: take min(remaining, |raw|) bytes *)
Definition body_step (p : pst) (r : bytes) : outcome :=
  let rem := (clen p - Z.of_nat (length (body p)))%Z in
  if nil_b r then Wait
  else if Z.leb rem 0 then Wait                        (* dead on reachable states: Proofs/HttpInv.v *)
  else if Z.ltb (Z.of_nat (length r)) rem then Next (set_body p (body p ++ r)) []
  else lift (finish (set_body p (body p ++ firstn (Z.to_nat rem) r))) (skipn (Z.to_nat rem) r).

Definition step (p : pst) (r : bytes) : outcome :=
  match ph p with
  | PreStatus => line_step on_status p r
  | Headers => line_step on_header p r
  | Body =>
      if chunked p then chunk_step p r
      else if Z.ltb 0 (clen p) then body_step p r
      else Wait                                           (* negative Content-Length: never completes *)
  end.

(* ---------------------------------------------------------------- the feed loop *)

Inductive hstate :=
| Run (p : pst) (raw : bytes)
| Halt (k : stopkind)
| HFuel.

Fixpoint drain (fuel : nat) (p : pst) (r : bytes) (acc : list msg) : hstate * list msg :=
  match fuel with
  | O => (HFuel, acc)
  | S f =>
      match step p r with
      | Wait => (Run p r, acc)
      | Next p' r' => drain f p' r' acc
      | Emit m r' => drain f init r' (acc ++ [m])
      | Stop k => (Halt k, acc)
      end
  end.

(* data_received(d): `while data:` does nothing for an empty read *)
Definition hfeed (s : hstate) (d : bytes) : hstate * list msg :=
  match s with
  | Run p r =>
      if nil_b d then (s, [])
      else drain (S (length (r ++ d))) p (r ++ d) []
  | _ => (s, [])
  end.

Definition hinit : hstate := Run init [].

(* feed a list of reads in order *)
Fixpoint hfeeds (s : hstate) (ds : list bytes) : hstate * list msg :=
  match ds with
  | [] => (s, [])
  | d :: r =>
      let (s1, m1) := hfeed s d in
      let (s2, m2) := hfeeds s1 r in
      (s2, m1 ++ m2)
  end.

(* the run is covered by the property: no crash, not both framing headers, ... *)
Definition clean (x : hstate * list msg) : Prop :=
  match fst x with Run _ _ => True | _ => False end.
Definition cleanb (x : hstate * list msg) : bool :=
  match fst x with Run _ _ => true | _ => false end.
