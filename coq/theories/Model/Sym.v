(* Symbolic (Dolev-Yao) cryptography shared by the C01 / C03 protocol models.

   A message is a FLAT list of atoms ([msg := list atom]); concatenation is list
   append, so  a ‖ id ‖ b  is compared up to re-association for free.  Literal
   bytes are lists of [AByte] atoms (one atom per byte), so literal parts of a
   message compare exactly as byte strings do.  All other atoms are opaque,
   indivisible outputs of a cryptographic primitive ("perfect cryptography"):

     APub sk                 32-byte public key of the secret named sk
     ASig sk m               64-byte Ed25519 signature by sk over m
     AAead key nonce aad pt  ChaCha20-Poly1305 ciphertext+tag (|pt|+16 bytes)
     ADH a b / ADHx a pk     X25519 shared secret; [ADH] is the normal form of
                             DH(a, pub b) = DH(b, pub a)  (built by [s_dh], a <= b)
     AHkdf ikm salt info n   HKDF-SHA-512 output of n bytes (labels explicit)
     AHash m                 SHA-512 digest
     ASrp*                   SRP-6a values as abstract terms (C03; C02 owns the arithmetic)
     ATlv t v                the TLV8 encoding of one item (t, v)
     AJunk id n              n opaque bytes of unknown provenance

   Definitions only; lemmas are in Proofs/SymFacts.v.  No axioms, no parameters. *)
From Coq Require Import List NArith Arith Bool.
From Coq Require Import Strings.Byte.
From AHK Require Import Lib.Res Lib.ByteStr Model.Tlv.
Import ListNotations.

Inductive atom : Type :=
| AByte (b : N)
| APub (sk : N)
| ASig (sk : N) (m : list atom)
| AAead (key nonce aad pt : list atom)
| ADH (a b : N)
| ADHx (a : N) (pk : list atom)
| AHkdf (ikm salt info : list atom) (len : N)
| AHash (m : list atom)
| ASrpA (a : N)
| ASrpB (b : N) (code salt : list atom)
| ASrpK (a b : N) (code salt : list atom)
| ASrpKc (a : N) (code salt B : list atom)
| ASrpKs (b : N) (code salt A : list atom)
| ATlv (t : N) (v : list atom)
| AJunk (id len : N).

Definition msg := list atom.

(* ---- decidable equality (structural; nested recursion through lists) ---- *)
Fixpoint atom_eqb (x y : atom) {struct x} : bool :=
  let fix meq (l1 l2 : list atom) {struct l1} : bool :=
    match l1, l2 with
    | [], [] => true
    | a :: r, b :: s => atom_eqb a b && meq r s
    | _, _ => false
    end in
  match x, y with
  | AByte a, AByte b => N.eqb a b
  | APub a, APub b => N.eqb a b
  | ASig k m, ASig k' m' => N.eqb k k' && meq m m'
  | AAead k n a p, AAead k' n' a' p' => meq k k' && meq n n' && meq a a' && meq p p'
  | ADH a b, ADH a' b' => N.eqb a a' && N.eqb b b'
  | ADHx a p, ADHx a' p' => N.eqb a a' && meq p p'
  | AHkdf i s f l, AHkdf i' s' f' l' => meq i i' && meq s s' && meq f f' && N.eqb l l'
  | AHash m, AHash m' => meq m m'
  | ASrpA a, ASrpA a' => N.eqb a a'
  | ASrpB b c s, ASrpB b' c' s' => N.eqb b b' && meq c c' && meq s s'
  | ASrpK a b c s, ASrpK a' b' c' s' => N.eqb a a' && N.eqb b b' && meq c c' && meq s s'
  | ASrpKc a c s B, ASrpKc a' c' s' B' => N.eqb a a' && meq c c' && meq s s' && meq B B'
  | ASrpKs b c s A, ASrpKs b' c' s' A' => N.eqb b b' && meq c c' && meq s s' && meq A A'
  | ATlv t v, ATlv t' v' => N.eqb t t' && meq v v'
  | AJunk i l, AJunk i' l' => N.eqb i i' && N.eqb l l'
  | _, _ => false
  end.

Fixpoint msg_eqb (l1 l2 : msg) {struct l1} : bool :=
  match l1, l2 with
  | [], [] => true
  | a :: r, b :: s => atom_eqb a b && msg_eqb r s
  | _, _ => false
  end.

(* ---- symbolic length in bytes ---- *)
Definition tlv_len (n : N) : N := (n + 2 * N.max 1 ((n + 254) / 255))%N.

Fixpoint alen (x : atom) : N :=
  let fix ml (l : list atom) : N :=
    match l with [] => 0%N | a :: r => (alen a + ml r)%N end in
  match x with
  | AByte _ => 1
  | APub _ => 32
  | ASig _ _ => 64
  | AAead _ _ _ p => ml p + 16
  | ADH _ _ => 32
  | ADHx _ _ => 32
  | AHkdf _ _ _ l => l
  | AHash _ => 64
  | ASrpA _ => 384
  | ASrpB _ _ _ => 384
  | ASrpK _ _ _ _ => 64
  | ASrpKc _ _ _ _ => 64
  | ASrpKs _ _ _ _ => 64
  | ATlv _ v => tlv_len (ml v)
  | AJunk _ l => l
  end%N.

Fixpoint mlen (m : msg) : N :=
  match m with [] => 0%N | a :: r => (alen a + mlen r)%N end.

Definition is_empty (m : msg) : bool := N.eqb (mlen m) 0.

(* ---- literals ---- *)
Definition lit (b : bytes) : msg := map AByte b.

Fixpoint as_bytes (m : msg) : option bytes :=
  match m with
  | [] => Some []
  | AByte b :: r => option_map (cons b) (as_bytes r)
  | _ :: _ => None
  end.

Fixpoint bytes_eqb (a b : bytes) : bool :=
  match a, b with
  | [], [] => true
  | x :: r, y :: s => N.eqb x y && bytes_eqb r s
  | _, _ => false
  end.

(* protocol labels are written as string literals; the literal is turned into
   its byte values at parse time (String Notation), so that neither Coq's
   String library nor Ascii is part of the model or of the extracted code *)
Inductive label := Lbl (b : list N).
Definition lbl_parse (l : list Byte.byte) : label := Lbl (map Byte.to_N l).
Definition lbl_print (x : label) : option (list Byte.byte) :=
  match x with
  | Lbl b => Some (map (fun n => match Byte.of_N n with Some c => c | None => Byte.x00 end) b)
  end.
Declare Scope lbl_scope.
Delimit Scope lbl_scope with lbl.
Bind Scope lbl_scope with label.
String Notation label lbl_parse lbl_print : lbl_scope.

Definition str (s : label) : msg := match s with Lbl b => lit b end.

(* the 12-byte nonce  00 00 00 00 ‖ 8-byte label *)
Definition nonce (l : label) : msg := lit [0;0;0;0]%N ++ str l.

(* drop leading zero bytes (int.from_bytes(..., "big") forgets them) *)
Fixpoint strip0 (m : msg) : msg :=
  match m with
  | AByte 0%N :: r => strip0 r
  | _ => m
  end.

(* ---- perfect-cryptography evaluators ---- *)
Definition s_pub (sk : N) : msg := [APub sk].
Definition s_sign (sk : N) (m : msg) : msg := [ASig sk m].

(* Ed25519 verify: true iff the key is the public key of the signer and the
   signed message equals the checked one *)
Definition s_verify (pk sig m : msg) : bool :=
  match pk, sig with
  | [APub k], [ASig k' m'] => N.eqb k k' && msg_eqb m' m
  | _, _ => false
  end.

Definition s_seal (key nonce aad pt : msg) : msg := [AAead key nonce aad pt].

(* AEAD open: succeeds iff key, nonce and aad all equal those of the seal *)
Definition s_open (key nonce aad ct : msg) : option msg :=
  match ct with
  | [AAead k n a p] =>
      if msg_eqb k key && msg_eqb n nonce && msg_eqb a aad then Some p else None
  | _ => None
  end.

(* X25519: DH(a, pub b) and DH(b, pub a) have one normal form *)
Definition s_dh (a : N) (pk : msg) : msg :=
  match pk with
  | [APub b] => if N.leb a b then [ADH a b] else [ADH b a]
  | _ => [ADHx a pk]
  end.

Definition s_hkdf (ikm salt info : msg) (len : N) : msg := [AHkdf ikm salt info len].
Definition s_hash (m : msg) : msg := [AHash m].

(* SRP-6a, abstractly.  The client (secret a, setup code, salt) and the server
   (secret b, the verifier of (code', salt')) obtain the same session key iff
   the server's B was built for the same code and salt, and the server used the
   client's A. *)
Definition srp_A (a : N) : msg := [ASrpA a].
Definition srp_B (b : N) (code salt : msg) : msg := [ASrpB b code salt].
Definition srp_kc (code salt : msg) (a : N) (B : msg) : msg :=
  match B with
  | [ASrpB b c s] =>
      if msg_eqb c code && msg_eqb s salt then [ASrpK a b code salt]
      else [ASrpKc a code salt B]
  | _ => [ASrpKc a code salt B]
  end.
Definition srp_ks (code salt : msg) (b : N) (A : msg) : msg :=
  match A with
  | [ASrpA a] => [ASrpK a b code salt]
  | _ => [ASrpKs b code salt A]
  end.
(* M1 = H(Hgroup ‖ H(I) ‖ salt ‖ A ‖ B ‖ K),  M2 = H(A ‖ M1 ‖ K) *)
Definition srp_m1 (salt A B K : msg) : msg :=
  s_hash (str "Hgroup|H(Pair-Setup)" ++ salt ++ A ++ B ++ K).
Definition srp_m2 (A M1 K : msg) : msg := s_hash (A ++ M1 ++ K).

(* ---- symbolic TLV layer ---- *)
Definition sitem := (N * msg)%type.

(* decoder joins adjacent items of one type *)
Definition spush (acc : list sitem) (k : N) (v : msg) : list sitem :=
  match acc with
  | (k', v') :: r => if N.eqb k' k then (k', v' ++ v) :: r else (k, v) :: acc
  | [] => [(k, v)]
  end.
Definition smerge (l : list sitem) : list sitem :=
  rev (fold_left (fun acc kv => spush acc (fst kv) (snd kv)) l []).

(* the 'expected' filter: decoding stops at the first unexpected type
   (an empty expectation list means no filter) *)
Fixpoint stake (e : list N) (l : list sitem) : list sitem :=
  match l with
  | [] => []
  | (k, v) :: r => if mem_N k e then (k, v) :: stake e r else []
  end.
Definition sfilter (e : list N) (l : list sitem) : list sitem :=
  match e with [] => l | _ => stake e l end.

(* dict(list): later duplicates win *)
Fixpoint slookup (k : N) (d : list sitem) : option msg :=
  match d with
  | [] => None
  | (k', v) :: r =>
      match slookup k r with
      | Some x => Some x
      | None => if N.eqb k k' then Some v else None
      end
  end.

Definition senc (l : list sitem) : msg := map (fun kv => ATlv (fst kv) (snd kv)) l.

Inductive sdec_res :=
| SItems (l : list sitem)     (* raw items, before the adjacent-type join *)
| SParseErr                   (* literal bytes that are not TLV8 *)
| SUnsupported.               (* opaque atoms mixed with bytes: outside the abstraction *)

Fixpoint all_tlv (m : msg) : option (list sitem) :=
  match m with
  | [] => Some []
  | ATlv t v :: r => option_map (cons (t, v)) (all_tlv r)
  | _ :: _ => None
  end.

(* a plaintext is either a list of encoded items, or literal bytes that are run
   through the byte-level decoder of Model/Tlv.v *)
Definition sdec (m : msg) : sdec_res :=
  match all_tlv m with
  | Some l => SItems l
  | None =>
      match as_bytes m with
      | Some b =>
          match tlv_decode b with
          | Ok items => SItems (map (fun kv => (fst kv, lit (snd kv))) items)
          | _ => SParseErr
          end
      | None => SUnsupported
      end
  end.

(* ---- pieces common to the pair-verify and pair-setup generators ---- *)
Inductive transport := TIP | TBLE | TCOAP.

(* failure classes (diagnostic only: the C01/C03 correspondence compares the
   coarse outcome; the exact exception classes are C04's) *)
Inductive fail :=
| FInvalid            (* InvalidError: wrong state / missing field *)
| FErr (e : msg)      (* error item present: error_handler(e) *)
| FAuthTag            (* InvalidAuthTagError / IllegalData: AEAD open failed *)
| FParse              (* TlvParseException on the decrypted sub-TLV *)
| FWrongId            (* IncorrectPairingIdError (or undecodable identifier) *)
| FSig                (* InvalidSignatureError *)
| FProof              (* AuthenticationError: wrong SRP proof *)
| FCrash.             (* ValueError & co from key constructors / int conversions *)

(* what the generator sees of a reply: IP and CoAP decode with the 'expected'
   filter, BLE does not; then dict(...) *)
Definition prep (tr : transport) (e : list N) (r : list sitem) : list sitem :=
  match tr with
  | TBLE => smerge r
  | _ => sfilter e (smerge r)
  end.

(* handle_state_step (repaired, fixes/C04-error-without-state.patch): a state
   item, when present, must match; an error item is an error in any case; a
   reply without state item passes (tolerated quirk of some accessories) *)
Definition check_err (d : list sitem) : option fail :=
  match slookup 7 d with Some e => Some (FErr e) | None => None end.
Definition state_step (d : list sitem) (expected : N) : option fail :=
  match slookup 6 d with
  | Some st => if msg_eqb st [AByte expected] then check_err d else Some FInvalid
  | None => check_err d
  end.
