(* BLE transport of pair-setup replies: model of
   aiohomekit/controller/ble/client.py::_pairing_char_write (the reassembly loop
   under drive_pairing_state_machine, as repaired by commit acb2c25).

   One reply of the accessory arrives as a sequence of GATT frames.  Every frame
   is a TLV8 item list; an item of type FragmentData (12) says "more follows"
   (the controller acknowledges with an empty FragmentData item and reads the
   next frame), an item of type FragmentLast (13) or a frame without fragment
   item completes the reply.  The reply handed to the pairing state machine is
       dict( siblings of ALL consumed frames, in order of arrival
             ++ decode(concatenated fragment payloads) )
   where the siblings of a frame are its items other than 12/13 (State, Error,
   ...).  dict(...) keeps the LAST value of every type.

   Frames are symbolic item lists (Model/Sym.v); fragment payloads are messages
   that are concatenated and decoded with [sdec] (a list of encoded items, or
   literal bytes run through the byte-level decoder of Model/Tlv.v).
   MAX_REASSEMBLY (50 frames) is not modelled: running out of frames is
   [BfStarved] (the real loop would wait for the link / raise ValueError).
   Definitions only. *)
From Coq Require Import List NArith Arith Bool.
From AHK Require Import Lib.Res Lib.ByteStr Model.Tlv Model.Sym Model.Setup.
Import ListNotations.

Definition F_data := 12%N.
Definition F_last := 13%N.
Definition is_frag (k : N) : bool := N.eqb k F_data || N.eqb k F_last.

Definition bframe := list sitem.     (* raw items of one frame, before the adjacent-type join *)

(* items of a decoded frame that travel next to the fragment item *)
Definition bf_sibs (items : list sitem) : list sitem :=
  filter (fun kv => negb (is_frag (fst kv))) items.

(* dict(list), as an association list with one entry per key: the last one *)
Fixpoint has_key (k : N) (d : list sitem) : bool :=
  match d with
  | [] => false
  | (k', _) :: r => N.eqb k k' || has_key k r
  end.
Fixpoint dict_norm (d : list sitem) : list sitem :=
  match d with
  | [] => []
  | (k, v) :: r => if has_key k r then dict_norm r else (k, v) :: dict_norm r
  end.

Inductive bf_res :=
| BfReply (d : list sitem) (rest : list bframe)   (* the dict handed to the generator; unread frames *)
| BfParse                                         (* TlvParseException from decode_bytes(buffer) *)
| BfUnsup                                         (* opaque atoms mixed with bytes: outside the abstraction *)
| BfStarved.                                      (* no completing frame *)

Definition bf_finish (sib : list sitem) (buf : msg) (rest : list bframe) : bf_res :=
  match sdec buf with
  | SItems l => BfReply (dict_norm (sib ++ smerge l)) rest
  | SParseErr => BfParse
  | SUnsupported => BfUnsup
  end.

Fixpoint bf_reasm (frames : list bframe) (buf : msg) (sib : list sitem) : bf_res :=
  match frames with
  | [] => BfStarved
  | f :: rest =>
      let items := smerge f in
      let sib' := sib ++ bf_sibs items in
      match slookup F_last items with
      | Some v => bf_finish sib' (buf ++ v) rest
      | None =>
          match slookup F_data items with
          | Some v => bf_reasm rest (buf ++ v) sib'
          | None => bf_finish sib' buf rest
          end
      end
  end.

Definition bf_logical (frames : list bframe) : bf_res := bf_reasm frames [] [].

(* the frames the loop reads: up to and including the completing one *)
Fixpoint bf_used (frames : list bframe) : list bframe :=
  match frames with
  | [] => []
  | f :: rest =>
      match slookup F_last (smerge f) with
      | Some _ => [f]
      | None =>
          match slookup F_data (smerge f) with
          | Some _ => f :: bf_used rest
          | None => [f]
          end
      end
  end.

(* the fragment payload a frame contributes, and whether it asks for more *)
Definition bf_piece (f : bframe) : msg :=
  match slookup F_last (smerge f) with
  | Some v => v
  | None => match slookup F_data (smerge f) with Some v => v | None => [] end
  end.
Definition bf_more (f : bframe) : bool :=
  match slookup F_last (smerge f) with
  | Some _ => false
  | None => match slookup F_data (smerge f) with Some _ => true | None => false end
  end.
Definition bf_payload (frames : list bframe) : msg := concat (map bf_piece (bf_used frames)).

(* two framings of one reply: frame by frame the same siblings and the same
   continue/complete decision; the payload may be cut differently *)
Definition bf_same_shape (f f' : bframe) : Prop :=
  bf_sibs (smerge f) = bf_sibs (smerge f') /\ bf_more f = bf_more f'.

Definition bf_dict (r : bf_res) : option (list sitem) :=
  match r with BfReply d _ => Some d | _ => None end.
Definition bf_class (r : bf_res) : N :=
  match r with BfReply _ _ => 0 | BfParse => 1 | BfUnsup => 2 | BfStarved => 3 end%N.

(* ---- pair-setup over framed replies (BLE) ---- *)
Definition bf_fail (r : bf_res) : ps_step :=
  match r with
  | BfParse => SFail FParse
  | _ => SUnsup
  end.

Definition ps_run_frames (c : ps_cfg) (f2 f4 f6 : list bframe) : ps_step :=
  match bf_logical f2 with
  | BfReply d2 _ =>
      match ps1_on_m2 TBLE d2 with
      | S1Fail f => SFail f
      | S1Done salt B =>
          match ps2_start c salt B with
          | None => SFail FCrash
          | Some (_, sb) =>
              match bf_logical f4 with
              | BfReply d4 _ =>
                  match ps2_on_m4 TBLE c sb B d4 with
                  | SSend _ K =>
                      match bf_logical f6 with
                      | BfReply d6 _ => ps2_on_m6 TBLE c K d6
                      | other => bf_fail other
                      end
                  | x => x
                  end
              | other => bf_fail other
              end
          end
      end
  | other => bf_fail other
  end.

(* entry point of the correspondence driver: framed reply -> logical reply *)
Definition bf_reply (frames : list bframe) : option (list sitem) := bf_dict (bf_logical frames).
