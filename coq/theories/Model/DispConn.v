(* C08 (extension) - the LONG-LIVED HomeKitConnection: a sequence of connection epochs.

   Model/Disp.v describes ONE protocol object (one TCP connection) plus the connection's
   request semaphore, and there "closed" is absorbing.  The real HomeKitConnection object
   outlives its transports: after an abandonment the connector (_reconnect / _connect_once,
   woken by reconnect_soon() when zeroconf sees the accessory again) dials again, runs
   pair-verify and installs a NEW SecureHomeKitProtocol (fresh result_cbs, parser, counters)
   while the SAME asyncio.Semaphore (_concurrency_limit), the same caller tasks and the same
   request-id space live on.  This file adds that layer:

     Ev e        an event of the current epoch (Model/Disp.v)
     Reconnect   the accessory is reachable again and the connector gets through: if the
                 connection is closed a new epoch starts (transport open, nothing in flight,
                 nobody queued - what was pending was completed when the old epoch closed),
                 clock and request ids continue; if it is open nothing happens
                 (reconnect_soon() on a connected connection is a no-op)
     LateLost    connection_lost() of an ABANDONED transport is delivered late (asyncio defers
                 it while unsent bytes are buffered): the code ignores it
                 (HomeKitConnection._connection_lost: "protocol.transport is not self.transport")

   Outputs and consumed events are tagged with the epoch in which they happened, so that
   theorems can speak about "the responses of epoch k".  Definitions only. *)
From Coq Require Import List NArith Arith Bool.
From AHK Require Import Model.Disp.
Import ListNotations.

Inductive cevent :=
| Ev (e : event)
| Reconnect
| LateLost.

Record cst := mkc { base : st; epoch : nat }.

Definition cinit : cst := mkc init 0.

(* the state right after a successful reconnect *)
Definition reopen (s : st) : st := mkst (clock s) true (next s) [] [].

Section Conn.
Variable cap : nat.
Variable T30 : N.

Definition cstep (c : cst) (ce : cevent) : cst * list output :=
  match ce with
  | Ev e => let '(s', o) := step cap T30 (base c) e in (mkc s' (epoch c), o)
  | Reconnect =>
      if opened (base c) then (c, []) else (mkc (reopen (base c)) (S (epoch c)), [])
  | LateLost => (c, [])
  end.

(* the events consumed by the protocol object of the epoch in which they arrive *)
Definition tag_event (c : cst) (ce : cevent) : list (nat * event) :=
  match ce with Ev e => [(epoch c, e)] | _ => [] end.

(* final state, epoch-tagged outputs, epoch-tagged events *)
Fixpoint crun (c : cst) (ces : list cevent) : cst * list (nat * output) * list (nat * event) :=
  match ces with
  | [] => (c, [], [])
  | ce :: ces' =>
      let '(c1, o1) := cstep c ce in
      let '(c2, o2, e2) := crun c1 ces' in
      (c2, map (fun o => (epoch c, o)) o1 ++ o2, tag_event c ce ++ e2)
  end.

(* per-step view for the correspondence driver: (outputs, epoch after the step, clock after the step) *)
Fixpoint crun_steps (c : cst) (ces : list cevent) : cst * list (list output * nat * N) :=
  match ces with
  | [] => (c, [])
  | ce :: ces' =>
      let '(c1, o1) := cstep c ce in
      let '(c2, o2) := crun_steps c1 ces' in (c2, (o1, epoch c1, clock (base c1)) :: o2)
  end.

Definition cfinal (ces : list cevent) : cst := fst (fst (crun cinit ces)).
Definition ctrace (ces : list cevent) : list (nat * output) := snd (fst (crun cinit ces)).
Definition cevents (ces : list cevent) : list (nat * event) := snd (crun cinit ces).

End Conn.

(* the items tagged k *)
Definition sel {A : Type} (k : nat) (l : list (nat * A)) : list A :=
  map snd (filter (fun p => Nat.eqb (fst p) k) l).

(* all outputs of a long-lived connection, in order *)
Definition untag {A : Type} (l : list (nat * A)) : list A := map snd l.
