(* C04 extension: the BLE reply path below the pairing generators, as the code has it
   (aiohomekit/controller/ble/client.py):
     char_write            = ble_request + _decode_pdu_tlv_value:
                             PDUStatus(status) (ValueError on an unknown byte), raise_for_pdu_status,
                             dict(TLV.decode_bytes(body))[Value]
     _pairing_char_write   = up to MAX_REASSEMBLY char_writes; FragmentData (12) pieces are collected and
                             acknowledged, FragmentLast (13) ends the collection, a reply without either is
                             the dict itself
     drive_pairing_state_machine / BlePairing._async_request hand the result to the generators /
     the add/remove pairing checks of Model/Steps.v.
   One [exchange] is what one GATT request/response transaction delivers after PDU reassembly
   (the PDU framing itself is C17's): the PDU status byte and the PDU body.
   Definitions only; proofs in Proofs/StepsBle.v. *)
From Coq Require Import List NArith Arith Bool.
From AHK Require Import Lib.Res Lib.ByteStr Model.Tlv Model.Steps.
Import ListNotations.

Definition exchange := (N * bytes)%type.

Definition lift_dec {A} (r : res tlv_err A) : res errclass A :=
  match r with Ok x => Ok x | Err _ => Err EParse | Crash => Crash | OutOfFuel => OutOfFuel end.

(* the value a char_write returns *)
Definition char_write_value (x : exchange) : res errclass bytes :=
  let (st, body) := x in
  if negb (N.leb st 6) then Crash                         (* PDUStatus(st): ValueError *)
  else if negb (N.eqb st 0) then Err EPduStatus           (* raise_for_pdu_status *)
  else
    match lift_dec (tlv_decode body) with
    | Ok outer => match lookup 1 outer with Some v => Ok v | None => Crash end   (* KeyError *)
    | Err e => Err e
    | Crash => Crash
    | OutOfFuel => OutOfFuel
    end.

(* _pairing_char_write: [max] = MAX_REASSEMBLY (50); an exhausted script is not a library path (Crash).
   Model of the REPAIRED code (fixes/C04-ble-fragment-siblings.patch): the items that a payload carries next to its
   FragmentData (12) / FragmentLast (13) item are kept ([siblings], in arrival order) and the reassembled items are
   appended to them - dict(siblings + decode(buffer)), so on a duplicate type the reassembled value wins, exactly as
   a later duplicate wins inside one reply; a payload without fragment item ends the exchange and whatever was
   buffered before is decoded as well. *)
Definition is_fragment_type (k : N) : bool := N.eqb k 12 || N.eqb k 13.
Definition non_fragment (items : list item) : list item :=
  filter (fun kv => negb (is_fragment_type (fst kv))) items.

Definition finish_exchange (siblings : list item) (buffer : bytes) : res errclass (list item) :=
  match lift_dec (tlv_decode buffer) with
  | Ok r => Ok (siblings ++ r)
  | Err e => Err e
  | Crash => Crash
  | OutOfFuel => OutOfFuel
  end.

Fixpoint pairing_char_write (max : nat) (xs : list exchange) (buffer : bytes) (siblings : list item)
  : res errclass (list item) :=
  match max with
  | O => Crash                                            (* ValueError: too many fragments *)
  | S m =>
      match xs with
      | [] => Crash
      | x :: rest =>
          match char_write_value x with
          | Ok data =>
              match lift_dec (tlv_decode data) with
              | Ok items =>
                  let siblings' := siblings ++ non_fragment items in
                  match lookup 13 items with
                  | Some last => finish_exchange siblings' (buffer ++ last)
                  | None =>
                      match lookup 12 items with
                      | Some part => pairing_char_write m rest (buffer ++ part) siblings'
                      | None => finish_exchange siblings' buffer
                      end
                  end
              | Err e => Err e
              | Crash => Crash
              | OutOfFuel => OutOfFuel
              end
          | Err e => Err e
          | Crash => Crash
          | OutOfFuel => OutOfFuel
          end
      end
  end.

Definition ble_exchange (xs : list exchange) : res errclass (list item) := pairing_char_write 50 xs [] [].

(* the unrepaired loop, kept only for the defect witness: siblings of a fragment item are dropped, a payload
   without fragment item is returned alone *)
Fixpoint pairing_char_write_unrepaired (max : nat) (xs : list exchange) (buffer : bytes) : res errclass (list item) :=
  match max with
  | O => Crash
  | S m =>
      match xs with
      | [] => Crash
      | x :: rest =>
          match char_write_value x with
          | Ok data =>
              match lift_dec (tlv_decode data) with
              | Ok items =>
                  match lookup 13 items with
                  | Some last => lift_dec (tlv_decode (buffer ++ last))
                  | None =>
                      match lookup 12 items with
                      | Some part => pairing_char_write_unrepaired m rest (buffer ++ part)
                      | None => Ok items
                      end
                  end
              | Err e => Err e
              | Crash => Crash
              | OutOfFuel => OutOfFuel
              end
          | Err e => Err e
          | Crash => Crash
          | OutOfFuel => OutOfFuel
          end
      end
  end.

(* all items the accessory sent next to fragment items in the payloads the loop consumes *)
Fixpoint ble_siblings (max : nat) (xs : list exchange) : list item :=
  match max with
  | O => []
  | S m =>
      match xs with
      | [] => []
      | x :: rest =>
          match char_write_value x with
          | Ok data =>
              match lift_dec (tlv_decode data) with
              | Ok items =>
                  non_fragment items ++
                  match lookup 13 items with
                  | Some _ => []
                  | None => match lookup 12 items with Some _ => ble_siblings m rest | None => [] end
                  end
              | _ => []
              end
          | _ => []
          end
      end
  end.

(* one step of a pairing generator behind drive_pairing_state_machine *)
Definition step_ble (s : step) (o : oracles) (xs : list exchange) : outcome :=
  match ble_exchange xs with
  | Ok d => step_items s o d
  | Err e => Err e
  | Crash => Crash
  | OutOfFuel => OutOfFuel
  end.

(* BlePairing.add_pairing / remove_pairing behind _async_request: raise_for_pdu_status, then the
   wrapped reply of Model/Steps.mgmt_wire *)
Definition mgmt_ble (op : mgmt_op) (x : exchange) : res errclass mgmt_done :=
  let (st, body) := x in
  if negb (N.leb st 6) then Crash
  else if negb (N.eqb st 0) then Err EPduStatus
  else mgmt_wire op body.

(* the accessory side used in the statements: a successful exchange whose body wraps [payload] as the
   Value (1) parameter, and the script that sends a TLV blob in FragmentData pieces and a FragmentLast piece *)
Definition wrap (payload : bytes) : exchange := (0%N, frags 255 (S (length payload)) 1 payload).
Definition ble_script (pieces : list bytes) (last : bytes) : list exchange :=
  map wrap (map (fun p => frags 255 (S (length p)) 12 p) pieces ++ [frags 255 (S (length last)) 13 last]).

(* retry_bluetooth_connection_error(attempts) around add_pairing (2) / remove_pairing (10): an attempt whose
   transaction ends in a link drop (None: BleakError after M1 was written) is repeated after a reconnect; the last
   attempt's BleakError escapes (Crash); the first transaction that is answered decides the call *)
Fixpoint mgmt_ble_retry (attempts : nat) (op : mgmt_op) (evs : list (option exchange)) : res errclass mgmt_done :=
  match attempts with
  | O => Crash
  | S n =>
      match evs with
      | [] => Crash
      | None :: rest => mgmt_ble_retry n op rest
      | Some x :: _ => mgmt_ble op x
      end
  end.

Definition ble_attempts (op : mgmt_op) : nat := match op with BleAdd => 2 | BleRemove => 10 | _ => 1 end.

(* a history of calls on one pairing object: every call is decided by its own events only *)
Definition mgmt_ble_history (calls : list (mgmt_op * list (option exchange))) : list (res errclass mgmt_done) :=
  map (fun c => mgmt_ble_retry (ble_attempts (fst c)) (fst c) (snd c)) calls.
