(* Model of the repaired reconnection machinery of aiohomekit/controller/ip/connection.py
   (HomeKitConnection / SecureHomeKitConnection: _start_connector, reconnect_soon,
   _start_reconnecting, ensure_connection, _stop_connector, close, _connection_lost,
   _get_connect_hosts, _connect_once, _reconnect) together with
   IpPairing._ensure_connected / _async_description_update / shutdown
   (aiohomekit/controller/ip/pairing.py, controller/abstract.py).

   A discrete-event machine: time in ticks of 1/4096 s; a network script (one entry per
   aiohappyeyeballs.start_connection call; per opened connection one verify entry
   (kind, delta, vdelay): the decisive pair-verify answer, the duration of the re-subscribe
   round trip after success, and the time the accessory takes before that decisive answer -
   0 = same tick, >= 30 s = the request timeout of InsecureHomeKitProtocol._send_lines cuts
   in first) and time-stamped control events.  Every step runs the modelled component to
   quiescence.  While the answer is outstanding the connector is in phase [PVerify]: the
   connection is open and current (transport/protocol set) but is_secure is False; every control
   event and the waiters' 10 s deadlines can fall into that window.
   Shared by C10 (attempt times, back-off, single connector, waiters) and C11 (open set).
   Definitions only; proofs are in Proofs/Reconnect*.v. *)
From Coq Require Import List NArith Arith Bool.
Import ListNotations.

Definition cid := nat.
Definition hostid := nat.

Inductive dial := DRefused | DHang | DConnect (i : nat).

Inductive vkind :=
| VOk | VWrongId | VBadTag | VBadSig | VAuth | VInvalid | VGarbage | VPeerClose | VPeerReset | VHttp4xx
| VOkFin | VOkRst     (* answers ok, then closes (FIN) / resets (RST) the connection delta ticks into connection_made(True) *)
| VOkBad.             (* answers ok, then answers the re-subscribe request with an unusable body: the controller hangs up *)

Inductive vclass := KOk | KWrong | KAuth | KOther.
(* scripted loss of the connection inside the connector's connection_made(True) window: Some reset *)
Definition loss_of (k : vkind) : option bool :=
  match k with VOkFin | VOkBad => Some false | VOkRst => Some true | _ => None end.
(* VOkBad: put_json closes the transport itself and raises AccessoryDisconnectedError, which subscribe() swallows like the
   failure after a FIN: the connector returns, connection_lost (not abandoned) then starts a fresh connector *)
Definition vclass_of (k : vkind) : vclass :=
  match k with
  | VOk | VOkFin | VOkRst | VOkBad => KOk | VWrongId => KWrong | VAuth => KAuth
  | _ => KOther     (* HomeKitException subclasses and foreign exceptions: retried with back-off *)
  end.

Inductive control :=
| Ensure (w : nat) | Cancel (w : nat) | Zeroconf (hs : list hostid) | Soon
| Drop (c : cid) | DropReset (c : cid) | Close | Shutdown
| BadReply (v : nat).   (* an API request on the established session gets an unusable reply (variant v): the controller hangs up *)

(* connector task *)
Inductive phase :=
| PNone                                                   (* never started *)
| PDial (rest : list hostid) (deadline : N) (fhc : nat)   (* a dial round hangs until its 10 s timeout *)
| PVerify (c : cid) (h : hostid) (fhc : nat) (r : option (vkind * N)) (until : N)
      (* the pair-verify request is in flight on connection c (open, current, not secure); at [until]
         the decisive answer r = Some (kind, delta) arrives, or (r = None) the 30 s request timeout of
         InsecureHomeKitProtocol._send_lines fires *)
| PPost (c : cid) (until : N)                             (* inside owner.connection_made(True) *)
| PSleep (wake : N)                                       (* back-off sleep (interruptible) *)
| PDoneOk | PDoneAuth | PCancelled.

Inductive outcome := OOk | ODisconnected | OAuth | OCancelled.

Inductive ev :=
| EvControl (c : control)
| EvDial (cands : list hostid) (d : dial)
| EvOpened (c : cid) (h : hostid)
| EvVerify (c : cid) (k : vkind)
| EvClosed (c : cid)
| EvWaiter (w : nat) (o : outcome)
| EvReturned (shutdown : bool)
| EvSnap (final : bool) (opn : list cid) (connected : bool) (ntasks : nat).

Record st := mk_st {
  hosts : list hostid;
  desc : list hostid;
  excl : list hostid;
  closing : bool;
  shut : bool;
  cur : option cid;
  secure : bool;
  ph : phase;
  nfail : nat;
  imm : nat;
  ntasks : nat;
  opn : list cid;
  waiters : list (nat * N);
  dials : list dial;
  verifs : list (vkind * N * N);
  nextcid : cid;
  now : N;
  subs : bool;
  supsub : bool;
  ploss : option bool;
  tie : bool;
  fuel_out : bool;
  adv_out : bool;
  trace : list (N * ev)
}.
Definition set_hosts (v : list hostid) (s : st) : st := {| hosts := v; desc := desc s; excl := excl s; closing := closing s; shut := shut s; cur := cur s; secure := secure s; ph := ph s; nfail := nfail s; imm := imm s; ntasks := ntasks s; opn := opn s; waiters := waiters s; dials := dials s; verifs := verifs s; nextcid := nextcid s; now := now s; subs := subs s; supsub := supsub s; ploss := ploss s; tie := tie s; fuel_out := fuel_out s; adv_out := adv_out s; trace := trace s |}.
Definition set_desc (v : list hostid) (s : st) : st := {| hosts := hosts s; desc := v; excl := excl s; closing := closing s; shut := shut s; cur := cur s; secure := secure s; ph := ph s; nfail := nfail s; imm := imm s; ntasks := ntasks s; opn := opn s; waiters := waiters s; dials := dials s; verifs := verifs s; nextcid := nextcid s; now := now s; subs := subs s; supsub := supsub s; ploss := ploss s; tie := tie s; fuel_out := fuel_out s; adv_out := adv_out s; trace := trace s |}.
Definition set_excl (v : list hostid) (s : st) : st := {| hosts := hosts s; desc := desc s; excl := v; closing := closing s; shut := shut s; cur := cur s; secure := secure s; ph := ph s; nfail := nfail s; imm := imm s; ntasks := ntasks s; opn := opn s; waiters := waiters s; dials := dials s; verifs := verifs s; nextcid := nextcid s; now := now s; subs := subs s; supsub := supsub s; ploss := ploss s; tie := tie s; fuel_out := fuel_out s; adv_out := adv_out s; trace := trace s |}.
Definition set_closing (v : bool) (s : st) : st := {| hosts := hosts s; desc := desc s; excl := excl s; closing := v; shut := shut s; cur := cur s; secure := secure s; ph := ph s; nfail := nfail s; imm := imm s; ntasks := ntasks s; opn := opn s; waiters := waiters s; dials := dials s; verifs := verifs s; nextcid := nextcid s; now := now s; subs := subs s; supsub := supsub s; ploss := ploss s; tie := tie s; fuel_out := fuel_out s; adv_out := adv_out s; trace := trace s |}.
Definition set_shut (v : bool) (s : st) : st := {| hosts := hosts s; desc := desc s; excl := excl s; closing := closing s; shut := v; cur := cur s; secure := secure s; ph := ph s; nfail := nfail s; imm := imm s; ntasks := ntasks s; opn := opn s; waiters := waiters s; dials := dials s; verifs := verifs s; nextcid := nextcid s; now := now s; subs := subs s; supsub := supsub s; ploss := ploss s; tie := tie s; fuel_out := fuel_out s; adv_out := adv_out s; trace := trace s |}.
Definition set_cur (v : option cid) (s : st) : st := {| hosts := hosts s; desc := desc s; excl := excl s; closing := closing s; shut := shut s; cur := v; secure := secure s; ph := ph s; nfail := nfail s; imm := imm s; ntasks := ntasks s; opn := opn s; waiters := waiters s; dials := dials s; verifs := verifs s; nextcid := nextcid s; now := now s; subs := subs s; supsub := supsub s; ploss := ploss s; tie := tie s; fuel_out := fuel_out s; adv_out := adv_out s; trace := trace s |}.
Definition set_secure (v : bool) (s : st) : st := {| hosts := hosts s; desc := desc s; excl := excl s; closing := closing s; shut := shut s; cur := cur s; secure := v; ph := ph s; nfail := nfail s; imm := imm s; ntasks := ntasks s; opn := opn s; waiters := waiters s; dials := dials s; verifs := verifs s; nextcid := nextcid s; now := now s; subs := subs s; supsub := supsub s; ploss := ploss s; tie := tie s; fuel_out := fuel_out s; adv_out := adv_out s; trace := trace s |}.
Definition set_ph (v : phase) (s : st) : st := {| hosts := hosts s; desc := desc s; excl := excl s; closing := closing s; shut := shut s; cur := cur s; secure := secure s; ph := v; nfail := nfail s; imm := imm s; ntasks := ntasks s; opn := opn s; waiters := waiters s; dials := dials s; verifs := verifs s; nextcid := nextcid s; now := now s; subs := subs s; supsub := supsub s; ploss := ploss s; tie := tie s; fuel_out := fuel_out s; adv_out := adv_out s; trace := trace s |}.
Definition set_nfail (v : nat) (s : st) : st := {| hosts := hosts s; desc := desc s; excl := excl s; closing := closing s; shut := shut s; cur := cur s; secure := secure s; ph := ph s; nfail := v; imm := imm s; ntasks := ntasks s; opn := opn s; waiters := waiters s; dials := dials s; verifs := verifs s; nextcid := nextcid s; now := now s; subs := subs s; supsub := supsub s; ploss := ploss s; tie := tie s; fuel_out := fuel_out s; adv_out := adv_out s; trace := trace s |}.
Definition set_imm (v : nat) (s : st) : st := {| hosts := hosts s; desc := desc s; excl := excl s; closing := closing s; shut := shut s; cur := cur s; secure := secure s; ph := ph s; nfail := nfail s; imm := v; ntasks := ntasks s; opn := opn s; waiters := waiters s; dials := dials s; verifs := verifs s; nextcid := nextcid s; now := now s; subs := subs s; supsub := supsub s; ploss := ploss s; tie := tie s; fuel_out := fuel_out s; adv_out := adv_out s; trace := trace s |}.
Definition set_ntasks (v : nat) (s : st) : st := {| hosts := hosts s; desc := desc s; excl := excl s; closing := closing s; shut := shut s; cur := cur s; secure := secure s; ph := ph s; nfail := nfail s; imm := imm s; ntasks := v; opn := opn s; waiters := waiters s; dials := dials s; verifs := verifs s; nextcid := nextcid s; now := now s; subs := subs s; supsub := supsub s; ploss := ploss s; tie := tie s; fuel_out := fuel_out s; adv_out := adv_out s; trace := trace s |}.
Definition set_opn (v : list cid) (s : st) : st := {| hosts := hosts s; desc := desc s; excl := excl s; closing := closing s; shut := shut s; cur := cur s; secure := secure s; ph := ph s; nfail := nfail s; imm := imm s; ntasks := ntasks s; opn := v; waiters := waiters s; dials := dials s; verifs := verifs s; nextcid := nextcid s; now := now s; subs := subs s; supsub := supsub s; ploss := ploss s; tie := tie s; fuel_out := fuel_out s; adv_out := adv_out s; trace := trace s |}.
Definition set_waiters (v : list (nat * N)) (s : st) : st := {| hosts := hosts s; desc := desc s; excl := excl s; closing := closing s; shut := shut s; cur := cur s; secure := secure s; ph := ph s; nfail := nfail s; imm := imm s; ntasks := ntasks s; opn := opn s; waiters := v; dials := dials s; verifs := verifs s; nextcid := nextcid s; now := now s; subs := subs s; supsub := supsub s; ploss := ploss s; tie := tie s; fuel_out := fuel_out s; adv_out := adv_out s; trace := trace s |}.
Definition set_dials (v : list dial) (s : st) : st := {| hosts := hosts s; desc := desc s; excl := excl s; closing := closing s; shut := shut s; cur := cur s; secure := secure s; ph := ph s; nfail := nfail s; imm := imm s; ntasks := ntasks s; opn := opn s; waiters := waiters s; dials := v; verifs := verifs s; nextcid := nextcid s; now := now s; subs := subs s; supsub := supsub s; ploss := ploss s; tie := tie s; fuel_out := fuel_out s; adv_out := adv_out s; trace := trace s |}.
Definition set_verifs (v : list (vkind * N * N)) (s : st) : st := {| hosts := hosts s; desc := desc s; excl := excl s; closing := closing s; shut := shut s; cur := cur s; secure := secure s; ph := ph s; nfail := nfail s; imm := imm s; ntasks := ntasks s; opn := opn s; waiters := waiters s; dials := dials s; verifs := v; nextcid := nextcid s; now := now s; subs := subs s; supsub := supsub s; ploss := ploss s; tie := tie s; fuel_out := fuel_out s; adv_out := adv_out s; trace := trace s |}.
Definition set_nextcid (v : cid) (s : st) : st := {| hosts := hosts s; desc := desc s; excl := excl s; closing := closing s; shut := shut s; cur := cur s; secure := secure s; ph := ph s; nfail := nfail s; imm := imm s; ntasks := ntasks s; opn := opn s; waiters := waiters s; dials := dials s; verifs := verifs s; nextcid := v; now := now s; subs := subs s; supsub := supsub s; ploss := ploss s; tie := tie s; fuel_out := fuel_out s; adv_out := adv_out s; trace := trace s |}.
Definition set_now (v : N) (s : st) : st := {| hosts := hosts s; desc := desc s; excl := excl s; closing := closing s; shut := shut s; cur := cur s; secure := secure s; ph := ph s; nfail := nfail s; imm := imm s; ntasks := ntasks s; opn := opn s; waiters := waiters s; dials := dials s; verifs := verifs s; nextcid := nextcid s; now := v; subs := subs s; supsub := supsub s; ploss := ploss s; tie := tie s; fuel_out := fuel_out s; adv_out := adv_out s; trace := trace s |}.
Definition set_subs (v : bool) (s : st) : st := {| hosts := hosts s; desc := desc s; excl := excl s; closing := closing s; shut := shut s; cur := cur s; secure := secure s; ph := ph s; nfail := nfail s; imm := imm s; ntasks := ntasks s; opn := opn s; waiters := waiters s; dials := dials s; verifs := verifs s; nextcid := nextcid s; now := now s; subs := v; supsub := supsub s; ploss := ploss s; tie := tie s; fuel_out := fuel_out s; adv_out := adv_out s; trace := trace s |}.
Definition set_supsub (v : bool) (s : st) : st := {| hosts := hosts s; desc := desc s; excl := excl s; closing := closing s; shut := shut s; cur := cur s; secure := secure s; ph := ph s; nfail := nfail s; imm := imm s; ntasks := ntasks s; opn := opn s; waiters := waiters s; dials := dials s; verifs := verifs s; nextcid := nextcid s; now := now s; subs := subs s; supsub := v; ploss := ploss s; tie := tie s; fuel_out := fuel_out s; adv_out := adv_out s; trace := trace s |}.
Definition set_ploss (v : option bool) (s : st) : st := {| hosts := hosts s; desc := desc s; excl := excl s; closing := closing s; shut := shut s; cur := cur s; secure := secure s; ph := ph s; nfail := nfail s; imm := imm s; ntasks := ntasks s; opn := opn s; waiters := waiters s; dials := dials s; verifs := verifs s; nextcid := nextcid s; now := now s; subs := subs s; supsub := supsub s; ploss := v; tie := tie s; fuel_out := fuel_out s; adv_out := adv_out s; trace := trace s |}.
Definition set_tie (v : bool) (s : st) : st := {| hosts := hosts s; desc := desc s; excl := excl s; closing := closing s; shut := shut s; cur := cur s; secure := secure s; ph := ph s; nfail := nfail s; imm := imm s; ntasks := ntasks s; opn := opn s; waiters := waiters s; dials := dials s; verifs := verifs s; nextcid := nextcid s; now := now s; subs := subs s; supsub := supsub s; ploss := ploss s; tie := v; fuel_out := fuel_out s; adv_out := adv_out s; trace := trace s |}.
Definition set_fuel_out (v : bool) (s : st) : st := {| hosts := hosts s; desc := desc s; excl := excl s; closing := closing s; shut := shut s; cur := cur s; secure := secure s; ph := ph s; nfail := nfail s; imm := imm s; ntasks := ntasks s; opn := opn s; waiters := waiters s; dials := dials s; verifs := verifs s; nextcid := nextcid s; now := now s; subs := subs s; supsub := supsub s; ploss := ploss s; tie := tie s; fuel_out := v; adv_out := adv_out s; trace := trace s |}.
Definition set_adv_out (v : bool) (s : st) : st := {| hosts := hosts s; desc := desc s; excl := excl s; closing := closing s; shut := shut s; cur := cur s; secure := secure s; ph := ph s; nfail := nfail s; imm := imm s; ntasks := ntasks s; opn := opn s; waiters := waiters s; dials := dials s; verifs := verifs s; nextcid := nextcid s; now := now s; subs := subs s; supsub := supsub s; ploss := ploss s; tie := tie s; fuel_out := fuel_out s; adv_out := v; trace := trace s |}.
Definition set_trace (v : list (N * ev)) (s : st) : st := {| hosts := hosts s; desc := desc s; excl := excl s; closing := closing s; shut := shut s; cur := cur s; secure := secure s; ph := ph s; nfail := nfail s; imm := imm s; ntasks := ntasks s; opn := opn s; waiters := waiters s; dials := dials s; verifs := verifs s; nextcid := nextcid s; now := now s; subs := subs s; supsub := supsub s; ploss := ploss s; tie := tie s; fuel_out := fuel_out s; adv_out := adv_out s; trace := v |}.

Definition TEN_S : N := 40960.
Definition SIXTY_S : N := 245760.
Definition THIRTY_S : N := 122880.     (* the request timeout of _send_lines *)

(* min(60, 0.5 * 1.5^n) seconds in ticks: 2048 * 3^n / 2^n, exact for n <= 11 *)
Definition sleep_ticks (n : nat) : N :=
  if n <=? 11 then (2048 * N.pow 3 (N.of_nat n) / N.pow 2 (N.of_nat n))%N else SIXTY_S.

Fixpoint mem_nat (x : nat) (l : list nat) : bool :=
  match l with [] => false | y :: r => if Nat.eqb x y then true else mem_nat x r end.
Fixpoint remove_nat (x : nat) (l : list nat) : list nat :=
  match l with [] => [] | y :: r => if Nat.eqb x y then remove_nat x r else y :: remove_nat x r end.
Definition subset_nat (a b : list nat) : bool := forallb (fun x => mem_nat x b) a.
Definition same_set (a b : list nat) : bool := subset_nat a b && subset_nat b a.

Definition emit (e : ev) (s : st) : st := set_trace ((now s, e) :: trace s) s.

Definition connected (s : st) : bool :=
  match cur s with Some _ => secure s | None => false end.

Definition running (s : st) : bool :=
  match ph s with PDial _ _ _ | PVerify _ _ _ _ _ | PPost _ _ | PSleep _ => true | _ => false end.

(* HomeKitConnection._drop_transport: close the transport if open, forget it *)
Definition drop_transport (s : st) : st :=
  match cur s with
  | Some c =>
      let s := if mem_nat c (opn s) then emit (EvClosed c) (set_opn (remove_nat c (opn s)) s) else s in
      set_cur None s
  | None => s
  end.

Definition resolve_waiters (o : outcome) (s : st) : st :=
  set_waiters [] (set_trace (rev (map (fun wd => (now s, EvWaiter (fst wd) o)) (waiters s)) ++ trace s) s).

(* the connector task ends *)
Definition finish (p : phase) (s : st) : st :=
  let s := set_ntasks (pred (ntasks s)) (set_ph p s) in
  match p with
  | PDoneOk => resolve_waiters (if connected s then OOk else ODisconnected) s
  | PDoneAuth => resolve_waiters OAuth s
  | _ => resolve_waiters OCancelled s
  end.

(* fall through to the back-off sleep: forget exclusions, interval = min(60, 1.5 * interval) *)
Definition backoff (s : st) : st :=
  let n := S (nfail s) in
  set_ph (PSleep (now s + sleep_ticks n)) (set_imm 0 (set_nfail n (set_excl [] s))).

Definition fail_other (s : st) : st := backoff (drop_transport s).

Definition pop_dial (s : st) : dial * st :=
  match dials s with [] => (DRefused, s) | d :: r => (d, set_dials r s) end.
Definition pop_verif (s : st) : (vkind * N * N) * st :=
  match verifs s with [] => ((VOk, 0%N, 0%N), s) | v :: r => (v, set_verifs r s) end.

(* SecureHomeKitConnection._connect_once once the pair-verify exchange on the current connection c
   (to address h) is decided: r = Some (kind, delta) is the accessory's decisive answer, r = None
   the 30 s request timeout (transport closed, AccessoryDisconnectedError: a HomeKitException,
   i.e. class "other": drop the transport, back off) *)
Definition verify_done (cont : st -> st) (fhc : nat) (h : hostid) (c : cid) (r : option (vkind * N)) (s : st) : st :=
  match r with
  | None => fail_other s
  | Some (k, delta) =>
      match vclass_of k with
      | KOther => fail_other s
      | KAuth => finish PDoneAuth (drop_transport s)
      | KWrong =>
          let s := set_excl (if mem_nat h (excl s) then excl s else excl s ++ [h]) s in
          let s := drop_transport s in
          if (fhc <? length (excl s)) && negb (subset_nat (hosts s) (excl s))
          then cont (set_imm (S (imm s)) s)          (* `continue`: next address, no back-off *)
          else backoff s
      | KOk =>
          let s := set_secure true s in
          if subs s && supsub s && negb (N.eqb delta 0)
          then set_ph (PPost c (now s + delta)) (set_ploss (loss_of k) s)
          else finish PDoneOk s
      end
  end.

(* SecureHomeKitConnection._connect_once after the TCP connection is up: the pair-verify request is
   sent; its decisive answer takes vd ticks (0: same tick; >= 30 s: never in time) *)
Definition after_connect (cont : st -> st) (fhc : nat) (h : hostid) (s : st) : st :=
  let c := nextcid s in
  let s := set_cur (Some c) (set_opn (opn s ++ [c]) (set_nextcid (S c) s)) in
  let s := emit (EvOpened c h) s in
  let '((k, delta, vd), s) := pop_verif s in
  let s := emit (EvVerify c k) s in
  if N.eqb vd 0 then verify_done cont fhc h c (Some (k, delta)) s
  else if N.ltb vd THIRTY_S then set_ph (PVerify c h fhc (Some (k, delta)) (now s + vd)) s
  else set_ph (PVerify c h fhc None (now s + THIRTY_S))
              (if N.eqb vd THIRTY_S then set_tie true s else s).   (* answer and timeout on one tick *)

(* the happy-eyeballs rounds of HomeKitConnection._connect_once (IPv4 candidates, interleave 1) *)
Fixpoint rounds (cont : st -> st) (fhc : nat) (cands : list hostid) (s : st) : st :=
  match cands with
  | [] => fail_other s                         (* ConnectionError / TimeoutError *)
  | _ :: rest =>
      let '(d, s) := pop_dial s in
      let s := emit (EvDial cands d) s in
      match d with
      | DRefused => rounds cont fhc rest s
      | DHang => set_ph (PDial rest (now s + TEN_S) fhc) s
      | DConnect i => after_connect cont fhc (nth (Nat.min i (length cands - 1)) cands 0) s
      end
  end.

(* top of the `while not self.closing` loop of _reconnect *)
Fixpoint attempt_loop (fuel : nat) (s : st) : st :=
  match fuel with
  | O => set_fuel_out true s
  | S f =>
      if closing s then finish PDoneOk s
      else
        let fhc := length (excl s) in
        let s := set_secure false s in
        let s := if same_set (hosts s) (desc s) then s
                 else set_imm 0 (set_excl [] (set_hosts (desc s) s)) in
        let cands := filter (fun h => negb (mem_nat h (excl s))) (hosts s) in
        let '(cands, s) := match cands with [] => (hosts s, set_excl [] s) | _ => (cands, s) end in
        rounds (attempt_loop f) fhc cands s
  end.

Definition fuel_of (s : st) : nat := S (S (length (hosts s) + length (desc s))).
Definition attempt (s : st) : st := attempt_loop (fuel_of s) s.

(* _start_connector *)
Definition start_connector (s : st) : st :=
  if running s || connected s then s
  else attempt (set_imm 0 (set_nfail 0 (set_ntasks (S (ntasks s)) (set_ph PNone s)))).

(* _start_reconnecting *)
Definition start_reconnecting (s : st) : st :=
  if connected s then s else start_connector (set_closing false s).

Definition reconnect_soon (s : st) : st :=
  match ph s with
  | PSleep _ => attempt s
  | _ => start_reconnecting s
  end.

(* _stop_connector: cancel the connector task and wait for it.  Cancelled in PVerify, the pending request
   raises CancelledError inside _send_lines, which closes the transport; _reconnect drops it: both are
   [drop_transport] of the current connection *)
Definition stop_connector (s : st) : st :=
  if running s then
    let s := match ph s with
             | PPost c _ => if mem_nat c (opn s) then emit (EvClosed c) (set_opn (remove_nat c (opn s)) s) else s
             | _ => s
             end in
    finish PCancelled (drop_transport s)
  else s.

Definition do_close (s : st) : st :=
  let s := set_closing true s in
  let s := stop_connector s in
  let s := drop_transport s in
  set_secure false s.

Definition remove_waiter (w : nat) (l : list (nat * N)) : list (nat * N) :=
  filter (fun wd => negb (Nat.eqb (fst wd) w)) l.
Definition has_waiter (w : nat) (l : list (nat * N)) : bool :=
  existsb (fun wd => Nat.eqb (fst wd) w) l.

(* the current connection is lost (peer FIN / RST) *)
Definition lose_current (reset : bool) (c : cid) (s : st) : st :=
  let s := emit (EvClosed c) (set_opn (remove_nat c (opn s)) s) in
  let s := set_cur None s in
  match ph s with
  | PPost _ _ =>
      (* the re-subscribe request ends with a disconnection error: IpPairing.subscribe turns
         supports_subscribe off, so later sessions skip the re-subscribe round trip *)
      let s := set_supsub false s in
      if reset then backoff s                 (* _lost_during_setup: the connector retries *)
      else let s := finish PDoneOk s in       (* pending request failed first; connector returned *)
           if closing s then s else start_connector s
  | PVerify _ _ _ _ _ =>
      (* the pending pair-verify request fails with AccessoryDisconnectedError (FIN: eof_received
         fails it, the connector drops the transport before connection_lost arrives; RST:
         connection_lost drops it and sets _lost_during_setup, then the request fails): in both
         orders the connector takes the HomeKitException branch and backs off *)
      backoff s
  | PDial _ _ _ | PSleep _ => s               (* unreachable: no current connection in these phases *)
  | _ => if closing s then s else start_connector s
  end.

Definition apply_control (c : control) (s : st) : st :=
  let s := emit (EvControl c) s in
  match c with
  | Ensure w =>
      if shut s || connected s then emit (EvWaiter w OOk) s
      else
        let s := set_waiters (waiters s ++ [(w, (now s + TEN_S)%N)]) s in
        start_connector (set_closing false s)
  | Cancel w =>
      if has_waiter w (waiters s)
      then emit (EvWaiter w OCancelled) (set_waiters (remove_waiter w (waiters s)) s)
      else s
  | Zeroconf hs => if shut s then s else reconnect_soon (set_desc hs s)
  | Soon => reconnect_soon s
  | Drop c =>
      if mem_nat c (opn s) then
        match cur s with
        | Some c' => if Nat.eqb c c' then lose_current false c s
                     else emit (EvClosed c) (set_opn (remove_nat c (opn s)) s)
        | None => emit (EvClosed c) (set_opn (remove_nat c (opn s)) s)
        end
      else s
  | DropReset c =>
      if mem_nat c (opn s) then
        match cur s with
        | Some c' => if Nat.eqb c c' then lose_current true c s
                     else emit (EvClosed c) (set_opn (remove_nat c (opn s)) s)
        | None => emit (EvClosed c) (set_opn (remove_nat c (opn s)) s)
        end
      else s
  | Close => emit (EvReturned false) (do_close s)
  | Shutdown => emit (EvReturned true) (do_close (set_shut true s))
  | BadReply _ =>
      (* put_json / post_json / post_tlv on an established session (connector finished): non-UTF-8 or malformed body,
         or HTTP 4xx to a TLV POST -> self.transport.close(); the caller gets AccessoryDisconnectedError (post_tlv: the
         decoded error body); connection_lost of the still current transport -> _drop_transport, _start_connector *)
      if connected s && negb (running s) then
        match cur s with Some c => lose_current false c s | None => s end
      else s
  end.

(* ---- timers ---- *)
Definition phase_timer (s : st) : option N :=
  match ph s with
  | PDial _ d _ => Some d | PVerify _ _ _ _ u => Some u | PPost _ u => Some u | PSleep w => Some w | _ => None
  end.

Fixpoint min_waiter (l : list (nat * N)) : option (nat * N) :=
  match l with
  | [] => None
  | wd :: r => match min_waiter r with
               | Some wd' => if N.leb (snd wd) (snd wd') then Some wd else Some wd'
               | None => Some wd
               end
  end.

(* earliest pending timer; at equal ticks waiter deadlines fire before connector timers *)
Inductive timer := TWaiter (w : nat) (t : N) | TPhase (t : N).
Definition timer_time (x : timer) : N := match x with TWaiter _ t => t | TPhase t => t end.
Definition next_timer (s : st) : option timer :=
  match min_waiter (waiters s), phase_timer s with
  | Some (w, t), Some p => if N.leb t p then Some (TWaiter w t) else Some (TPhase p)
  | Some (w, t), None => Some (TWaiter w t)
  | None, Some p => Some (TPhase p)
  | None, None => None
  end.

Definition fire (x : timer) (s : st) : st :=
  let s := set_now (timer_time x) s in
  match x with
  | TWaiter w _ => emit (EvWaiter w ODisconnected) (set_waiters (remove_waiter w (waiters s)) s)
  | TPhase _ =>
      match ph s with
      | PDial rest _ fhc => rounds (attempt_loop (fuel_of s)) fhc rest s
      | PVerify c h fhc r _ => verify_done (attempt_loop (fuel_of s)) fhc h c r s
      | PPost c _ =>
          match ploss s with
          | Some reset => lose_current reset c s      (* the accessory drops the connection instead of answering *)
          | None => finish PDoneOk s
          end
      | PSleep _ => attempt s
      | _ => s
      end
  end.

(* run internal timers strictly before time t; a timer exactly at t is a tie with the
   external event at t (the real scheduler's order is then unspecified): flagged *)
Fixpoint advance (fuel : nat) (t : N) (s : st) : st :=
  match fuel with
  | O => set_adv_out true s        (* not enough fuel to reach t: reported, never observed *)
  | S f =>
      match next_timer s with
      | Some x =>
          if N.ltb (timer_time x) t then advance f t (fire x s)
          else if N.eqb (timer_time x) t then set_now (N.max t (now s)) (set_tie true s)
          else set_now (N.max t (now s)) s
      | None => set_now (N.max t (now s)) s
      end
  end.

Definition advance_fuel (t : N) (s : st) : nat :=
  N.to_nat ((t - now s) / 3072) + length (waiters s) + length (verifs s) + 4.

Definition snap (final : bool) (s : st) : st :=
  emit (EvSnap final (opn s) (connected s) (ntasks s)) s.

Definition step (tc : N * control) (s : st) : st :=
  let s := advance (advance_fuel (fst tc) s) (fst tc) s in
  apply_control (snd tc) (snap false s).

Definition init (hs : list hostid) (sb : bool) (ds : list dial) (vs : list (vkind * N * N)) : st :=
  mk_st hs hs [] false false None false PNone 0 0 0 [] [] ds vs 1 0%N sb true None false false false [].

Definition run (hs : list hostid) (sb : bool) (ds : list dial) (vs : list (vkind * N * N))
           (controls : list (N * control)) (end_ : N) : st :=
  let s := fold_left (fun s tc => step tc s) controls (init hs sb ds vs) in
  snap true (advance (advance_fuel end_ s) end_ s).
