(* C19 - device waiters and advertisement parsing.  Definitions only.

   Part 1  parsing models
     from_service_info      aiohomekit/zeroconf.py HomeKitService.from_service_info, fed by the
                            TXT unpacking / address ordering of python-zeroconf's ServiceInfo
     adv_parse              HomeKitAdvertisement.from_manufacturer_data       (byte layout)
     notif_parse            HomeKitEncryptedNotification.from_manufacturer_data
   Partial Python primitives (indexing, struct.unpack, dict[...]) return Crash; the code's own
   ValueError is Err ValueError (the callbacks catch exactly that class).

   Part 2  labelled transition system of the waiter tables
     one transport controller (mDNS based ZeroconfController / BleController), parameterised by a
     [cfg] so that the repaired code and the unrepaired BLE code are both expressible;
     the aggregate Controller.async_find over the two transports.
   Time is an N in ticks of 1/4096 s.  [Advance 0] is "the event loop runs until idle without the
   clock moving" (the coroutines resume, BLE waiters run their finally block).                  *)
From Coq Require Import List NArith ZArith Arith Bool Lia ZifyN ZifyNat ZifyBool.
From AHK Require Import Lib.Res Lib.ByteStr.
Import ListNotations.
Open Scope N_scope.

Inductive perr : Set := ValueError.

(* ------------------------------------------------------------------ strings / ids *)
Definition id := list N.

Fixpoint beq (a b : list N) : bool :=
  match a, b with
  | [], [] => true
  | x :: a', y :: b' => N.eqb x y && beq a' b'
  | _, _ => false
  end.

Definition lower1 (c : N) : N := if (65 <=? c) && (c <=? 90) then c + 32 else c.
Definition lower (s : list N) : list N := map lower1 s.

(* Python int(str) on an ASCII string: surrounding whitespace, optional sign, decimal digits with
   single underscores between digits *)
Definition is_ws (c : N) : bool := ((9 <=? c) && (c <=? 13)) || (c =? 32).
Definition is_digit (c : N) : bool := (48 <=? c) && (c <=? 57).

Fixpoint drop_ws (l : list N) : list N :=
  match l with
  | c :: r => if is_ws c then drop_ws r else l
  | [] => []
  end.
Definition strip (l : list N) : list N := rev (drop_ws (rev (drop_ws l))).

Fixpoint digits_us (prev_digit : bool) (acc : N) (l : list N) : option N :=
  match l with
  | [] => if prev_digit then Some acc else None
  | c :: r =>
      if is_digit c then digits_us true (10 * acc + (c - 48)) r
      else if (c =? 95) && prev_digit then digits_us false acc r
      else None
  end.

Definition py_int (s : list N) : option Z :=
  match strip s with
  | [] => None
  | c :: r =>
      if c =? 45 then option_map (fun n => Z.opp (Z.of_N n)) (digits_us false 0 r)
      else if c =? 43 then option_map Z.of_N (digits_us false 0 r)
      else option_map Z.of_N (digits_us false 0 (c :: r))
  end.

(* decimal rendering (used by the round-trip statement) *)
Fixpoint dec_le (fuel : nat) (n : N) : list N :=
  match fuel with
  | O => []
  | S f => (48 + n mod 10) :: (if n / 10 =? 0 then [] else dec_le f (n / 10))
  end.
Definition dec (n : N) : list N := rev (dec_le (S (N.to_nat (N.log2 n))) n).

(* ------------------------------------------------------------------ partial primitives *)
Definition nth_crash (l : bytes) (i : nat) : res perr N :=
  match nth_error l i with Some b => Ok b | None => Crash end.

Definition slice (l : bytes) (a b : nat) : bytes := firstn (b - a) (skipn a l).

(* struct.Struct("<HHBB").unpack : struct.error unless exactly 6 bytes *)
Definition unpack_hhbb (l : bytes) : res perr (N * N * N * N) :=
  match l with
  | [a0; a1; g0; g1; c; v] => Ok (a0 + 256 * a1, g0 + 256 * g1, c, v)
  | _ => Crash
  end.

Fixpoint alookup {A} (k : list N) (l : list (list N * A)) : option A :=
  match l with
  | [] => None
  | (k', v) :: r => if beq k' k then Some v else alookup k r
  end.

(* d[k] : KeyError when absent *)
Definition dict_index {A} (k : list N) (l : list (list N * A)) : res perr A :=
  match alookup k l with Some v => Ok v | None => Crash end.

Definition hd_crash {A} (l : list A) : res perr A :=
  match l with x :: _ => Ok x | [] => Crash end.

(* ------------------------------------------------------------------ mDNS: TXT record and addresses *)
Inductive addr := V4 (b : bytes) | V6 (b : bytes).

Record svcinfo := {
  si_name : list N;        (* full instance name, e.g. "foo._hap._tcp.local." *)
  si_type : list N;        (* "_hap._tcp.local." *)
  si_addrs : list addr;    (* as handed to ServiceInfo, packed *)
  si_port : N;
  si_text : bytes          (* raw TXT rdata *)
}.

(* ServiceInfo._unpack_text_into_properties: length-prefixed records, slices may run short *)
Fixpoint unpack_f (fuel : nat) (t : bytes) : list bytes :=
  match fuel with
  | O => []
  | S f =>
      match t with
      | [] => []
      | n :: r => firstn (N.to_nat n) r :: unpack_f f (skipn (N.to_nat n) r)
      end
  end.
Definition txt_records (t : bytes) : list bytes := unpack_f (length t) t.

(* bytes.partition(b"=") : key, value-if-separator-present *)
Fixpoint split_eq (r : bytes) : bytes * option bytes :=
  match r with
  | [] => ([], None)
  | c :: r' =>
      if c =? 61 then ([], Some r')
      else let (k, v) := split_eq r' in (c :: k, v)
  end.

(* "if key not in properties": the first occurrence of a raw key wins *)
Fixpoint first_wins (seen : list bytes) (l : list (bytes * option bytes)) : list (bytes * option bytes) :=
  match l with
  | [] => []
  | (k, v) :: r =>
      if existsb (beq k) seen then first_wins seen r
      else (k, v) :: first_wins (k :: seen) r
  end.
Definition txt_props (t : bytes) : list (bytes * option bytes) :=
  first_wins [] (map split_eq (txt_records t)).

(* {k.lower(): v for k, v in decoded_properties.items() if v is not None}: later items override;
   represented as the reversed association list so that [alookup] finds the last one *)
Definition hk_props (t : bytes) : list (list N * bytes) :=
  rev (flat_map (fun kv => match snd kv with Some v => [(lower (fst kv), v)] | None => [] end)
                (txt_props t)).

Definition is_v4 (a : addr) : bool := match a with V4 _ => true | V6 _ => false end.
(* ip_addresses_by_version(All): IPv4 first, then IPv6 *)
Definition ordered (l : list addr) : list addr := filter is_v4 l ++ filter (fun a => negb (is_v4 a)) l.

Definition link_local (a : addr) : bool :=
  match a with
  | V4 (x :: y :: _) => (x =? 169) && (y =? 254)
  | V6 (x :: y :: _) => (x =? 254) && (y / 64 =? 2)
  | _ => false
  end.
Definition unspecified (a : addr) : bool :=
  match a with V4 b | V6 b => forallb (N.eqb 0) b end.
Definition addr_ok (a : addr) : bool := negb (link_local a) && negb (unspecified a).

Fixpoint ends_with (s suf : list N) : bool :=
  if beq s suf then true else match s with [] => false | _ :: r => ends_with r suf end.
Definition remove_suffix (s suf : list N) : list N :=
  if ends_with s suf then firstn (length s - length suf) s else s.

Record hksvc := {
  hs_name : list N; hs_id : id; hs_model : list N;
  hs_cn : Z; hs_sn : Z; hs_ff : Z; hs_sf : Z; hs_ci : Z;
  hs_pv : list N; hs_type : list N;
  hs_address : addr; hs_addresses : list addr; hs_port : N
}.

Definition k_id : list N := [105; 100].
Definition k_md : list N := [109; 100].
Definition k_cn : list N := [99; 35].
Definition k_sn : list N := [115; 35].
Definition k_ff : list N := [102; 102].
Definition k_sf : list N := [115; 102].
Definition k_ci : list N := [99; 105].
Definition k_pv : list N := [112; 118].

Definition int_field (k : list N) (default : Z) (p : list (list N * bytes)) : res perr Z :=
  match alookup k p with
  | None => Ok default
  | Some v => match py_int v with Some z => Ok z | None => Err ValueError end
  end.
Definition str_field (k : list N) (default : list N) (p : list (list N * bytes)) : list N :=
  match alookup k p with Some v => v | None => default end.

Definition from_service_info (s : svcinfo) : res perr hksvc :=
  let addrs := ordered (si_addrs s) in
  if nil_b addrs then Err ValueError else
  let valid := filter addr_ok addrs in
  if nil_b valid then Err ValueError else
  rbind (hd_crash valid) (fun address =>
  let p := hk_props (si_text s) in
  match alookup k_id p with
  | None => Err ValueError
  | Some _ =>
      rbind (dict_index k_id p) (fun idv =>
      rbind (int_field k_cn 0%Z p) (fun cn =>
      rbind (int_field k_sn 0%Z p) (fun sn =>
      rbind (int_field k_ff 0%Z p) (fun ff =>
      rbind (int_field k_sf 0%Z p) (fun sf =>
      rbind (int_field k_ci 1%Z p) (fun ci =>
      Ok {| hs_name := remove_suffix (si_name s) (46 :: si_type s);
            hs_id := lower idv;
            hs_model := str_field k_md [] p;
            hs_cn := cn; hs_sn := sn; hs_ff := ff; hs_sf := sf; hs_ci := ci;
            hs_pv := str_field k_pv [49; 46; 48] p;
            hs_type := si_type s;
            hs_address := address; hs_addresses := valid; hs_port := si_port s |}))))))
  end).

(* rendering of a TXT rdata from fields, for the round-trip statement *)
Definition txt_record (k v : bytes) : bytes := N.of_nat (length k + 1 + length v) :: k ++ 61 :: v.

Record svcfields := {
  f_id : list N; f_md : list N; f_cn : N; f_sn : N; f_ff : N; f_sf : N; f_ci : N; f_pv : list N
}.
Definition render_txt (up : list N -> list N) (f : svcfields) : bytes :=
  txt_record (up k_cn) (dec (f_cn f)) ++ txt_record (up k_id) (f_id f) ++ txt_record (up k_md) (f_md f)
  ++ txt_record (up k_sn) (dec (f_sn f)) ++ txt_record (up k_ci) (dec (f_ci f))
  ++ txt_record (up k_sf) (dec (f_sf f)) ++ txt_record (up k_ff) (dec (f_ff f))
  ++ txt_record (up k_pv) (f_pv f).
Definition upper1 (c : N) : N := if (97 <=? c) && (c <=? 122) then c - 32 else c.
Definition upper (s : list N) : list N := map upper1 s.

(* ------------------------------------------------------------------ BLE manufacturer data *)
Definition hexd (n : N) : N := if n <? 10 then 48 + n else 87 + n.
Definition hex2 (b : N) : list N := [hexd (b / 16); hexd (b mod 16)].

(* ":".join(x.hex()[i:i+2] for i in range(0, 12, 2)) for a slice x of at most 6 bytes *)
Definition hexpiece (x : bytes) (j : nat) : list N :=
  match nth_error x j with Some b => hex2 b | None => [] end.
Definition fmt_id (x : bytes) : id :=
  hexpiece x 0 ++ 58 :: hexpiece x 1 ++ 58 :: hexpiece x 2 ++ 58 :: hexpiece x 3
  ++ 58 :: hexpiece x 4 ++ 58 :: hexpiece x 5.

Record hkadv := {
  ha_id : id; ha_cat : N; ha_sf : N; ha_cn : N; ha_sn : N; ha_sh : bytes
}.

(* [md] = manufacturer_data.get(76) *)
Definition adv_parse (md : option bytes) : res perr hkadv :=
  match md with
  | None => Err ValueError
  | Some data =>
      if nil_b data then Err ValueError else
      rbind (nth_crash data 0) (fun t =>
      if negb (t =? 6) then Err ValueError else
      if (length data <? 15)%nat then Err ValueError else
      rbind (nth_crash data 2) (fun sf =>
      rbind (unpack_hhbb (slice data 9 15)) (fun '(acid, gsn, cn, _) =>
      Ok {| ha_id := fmt_id (slice data 3 9); ha_cat := acid; ha_sf := sf; ha_cn := cn; ha_sn := gsn;
            ha_sh := if (19 <=? length data)%nat then slice data 15 19 else [] |})))
  end.

Record hknotif := { hn_id : id; hn_advid : bytes; hn_payload : bytes }.

Definition notif_parse (md : option bytes) : res perr hknotif :=
  match md with
  | None => Err ValueError
  | Some data =>
      if nil_b data then Err ValueError else
      rbind (nth_crash data 0) (fun t =>
      if negb (t =? 17) then Err ValueError else
      Ok {| hn_id := fmt_id (slice data 2 8); hn_advid := slice data 2 8;
            hn_payload := skipn 8 data |})
  end.

Record advfields := {
  af_x : N;          (* second byte (length/subtype), not interpreted *)
  af_sf : N; af_dev : bytes; af_cat : N; af_sn : N; af_cn : N; af_cv : N; af_sh : bytes
}.
Definition render_adv (f : advfields) : bytes :=
  6 :: af_x f :: af_sf f :: af_dev f ++ le_enc 2 (af_cat f) ++ le_enc 2 (af_sn f)
  ++ [af_cn f; af_cv f] ++ af_sh f.
Definition render_notif (x : N) (advid payload : bytes) : bytes := 17 :: x :: advid ++ payload.

(* ------------------------------------------------------------------ waiter tables *)
Record descr := { d_id : id; d_cn : Z; d_sn : Z }.
Definition svc_descr (h : hksvc) : descr := {| d_id := hs_id h; d_cn := hs_cn h; d_sn := hs_sn h |}.
Definition adv_descr (a : hkadv) : descr :=
  {| d_id := ha_id a; d_cn := Z.of_N (ha_cn a); d_sn := Z.of_N (ha_sn a) |}.

Inductive kind := MDNS | BLE.
Record cfg := {
  ckind : kind;
  cregisters : bool;     (* async_find puts its future into the table *)
  cdone_guard : bool;    (* fulfilment skips futures that are already done *)
  cstate_guard : bool    (* BLE pairing without cached accessories state tolerated *)
}.
Definition mdns_cfg : cfg := {| ckind := MDNS; cregisters := true; cdone_guard := true; cstate_guard := true |}.
Definition ble_cfg : cfg := {| ckind := BLE; cregisters := true; cdone_guard := true; cstate_guard := true |}.
(* the BLE controller before the repairs fixes/C19-*.patch *)
Definition ble_orig_cfg : cfg := {| ckind := BLE; cregisters := false; cdone_guard := false; cstate_guard := false |}.
(* registration added, but no done() guard *)
Definition ble_noguard_cfg : cfg := {| ckind := BLE; cregisters := true; cdone_guard := false; cstate_guard := true |}.

Inductive wstat := Pending | Stale.   (* Stale: future done (timed out / cancelled) but still in the table *)
Record waiter := { wk : nat; wkey : id; wdl : N; wst : wstat; wlisted : bool }.

Record st := {
  now : N;
  discs : list (id * descr);       (* controller.discoveries *)
  tbl : list waiter;               (* _waiters / _ble_futures, registration order *)
  pairs : list (id * bool)         (* loaded pairings: id -> has cached accessories state *)
}.
Definition st0 : st := {| now := 0; discs := []; tbl := []; pairs := [] |}.

Inductive outcome := Found (d : descr) | NotFound | Cancelled.
Inductive out :=
| Done (k : nat) (o : outcome) (t : N)   (* async_find call k finished with o at time t *)
| Raised.                                (* the scanner / browser callback raised *)

Inductive event :=
| Find (k : nat) (i : id) (tau : N)
| Adv (d : option descr)                 (* a processed advertisement; None = did not parse *)
| Cancel (k : nat)
| Advance (delta : N)
| Load (i : id) (has_state : bool).      (* load_pairing *)

Definition norm (c : cfg) (i : id) : id := match ckind c with MDNS => lower i | BLE => i end.

Definition is_pending (w : waiter) : bool := match wst w with Pending => true | Stale => false end.
Definition set_stale (w : waiter) : waiter :=
  {| wk := wk w; wkey := wkey w; wdl := wdl w; wst := Stale; wlisted := wlisted w |}.
Definition hit (key : id) (w : waiter) : bool := wlisted w && beq (wkey w) key.

Fixpoint upsert {A} (k : list N) (v : A) (l : list (list N * A)) : list (list N * A) :=
  match l with
  | [] => [(k, v)]
  | (k', v') :: r => if beq k' k then (k, v) :: r else (k', v') :: upsert k v r
  end.

Definition reap (c : cfg) (t : list waiter) : list waiter :=
  match ckind c with BLE => filter is_pending t | MDNS => t end.

Definition step_find (c : cfg) (s : st) (k : nat) (i : id) (tau : N) : st * list out :=
  let key := norm c i in
  match alookup key (discs s) with
  | Some d => (s, [Done k (Found d) (now s)])
  | None =>
      ({| now := now s; discs := discs s;
          tbl := tbl s ++ [{| wk := k; wkey := key; wdl := now s + tau; wst := Pending;
                               wlisted := cregisters c |}];
          pairs := pairs s |}, [])
  end.

Definition wake (d : descr) (t : N) (key : id) (w : waiter) : list out :=
  if hit key w && is_pending w then [Done (wk w) (Found d) t] else [].

Definition pair_raises (c : cfg) (s : st) (key : id) : bool :=
  match ckind c with
  | BLE => match alookup key (pairs s) with Some false => negb (cstate_guard c) | _ => false end
  | MDNS => false
  end.

Definition step_adv (c : cfg) (s : st) (d : descr) : st * list out :=
  let key := d_id d in
  if pair_raises c s key
     || (negb (cdone_guard c) && existsb (fun w => hit key w && negb (is_pending w)) (tbl s))
  then (s, [Raised])
  else ({| now := now s; discs := upsert key d (discs s);
           tbl := filter (fun w => negb (hit key w)) (tbl s); pairs := pairs s |},
        flat_map (wake d (now s) key) (tbl s)).

Definition cancel1 (k : nat) (t : N) (w : waiter) : waiter * list out :=
  if is_pending w && Nat.eqb (wk w) k then (set_stale w, [Done k Cancelled t]) else (w, []).

Definition step_cancel (c : cfg) (s : st) (k : nat) : st * list out :=
  let r := map (cancel1 k (now s)) (tbl s) in
  ({| now := now s; discs := discs s; tbl := map fst r; pairs := pairs s |}, flat_map snd r).

Definition expire (t' : N) (w : waiter) : waiter * list out :=
  if is_pending w && (wdl w <=? t') then (set_stale w, [Done (wk w) NotFound (wdl w)]) else (w, []).

Definition step_advance (c : cfg) (s : st) (delta : N) : st * list out :=
  let t' := now s + delta in
  let r := map (expire t') (tbl s) in
  ({| now := t'; discs := discs s; tbl := reap c (map fst r); pairs := pairs s |}, flat_map snd r).

Definition step (c : cfg) (s : st) (e : event) : st * list out :=
  match e with
  | Find k i tau => step_find c s k i tau
  | Adv None => (s, [])
  | Adv (Some d) => step_adv c s d
  | Cancel k => step_cancel c s k
  | Advance delta => step_advance c s delta
  | Load i b => ({| now := now s; discs := discs s; tbl := tbl s; pairs := upsert (lower i) b (pairs s) |}, [])
  end.

Fixpoint run (c : cfg) (s : st) (evs : list event) : st * list out :=
  match evs with
  | [] => (s, [])
  | e :: r =>
      let (s1, o1) := step c s e in
      let (s2, o2) := run c s1 r in
      (s2, o1 ++ o2)
  end.

(* what a waiter (k, key, deadline) that is pending at time t must end with, read off the events *)
Fixpoint expect (k : nat) (key : id) (dl : N) (t : N) (evs : list event) : option (outcome * N) :=
  match evs with
  | [] => None
  | e :: r =>
      match e with
      | Adv (Some d) => if beq key (d_id d) then Some (Found d, t) else expect k key dl t r
      | Cancel k' => if Nat.eqb k k' then Some (Cancelled, t) else expect k key dl t r
      | Advance delta => if dl <=? t + delta then Some (NotFound, dl) else expect k key dl (t + delta) r
      | _ => expect k key dl t r
      end
  end.

(* Find keys are handles chosen by the caller: each used once *)
Fixpoint fresh_evs (avoid : list nat) (evs : list event) : Prop :=
  match evs with
  | [] => True
  | Find k _ _ :: r => ~ In k avoid /\ fresh_evs (k :: avoid) r
  | _ :: r => fresh_evs avoid r
  end.

(* ------------------------------------------------------------------ the callbacks *)
(* ZeroconfController._async_handle_loaded_service_info *)
Definition mdns_callback (c : cfg) (s : st) (si : svcinfo) : st * list out :=
  match from_service_info si with
  | Ok h => step c s (Adv (Some (svc_descr h)))
  | Err ValueError => (s, [])
  | Crash | OutOfFuel => (s, [Raised])
  end.

(* BleController._device_detected; name/address are passed through untouched and not modelled.
   The encrypted-notification branch hands the parsed notification to the pairing (C18). *)
Definition ble_callback (c : cfg) (s : st) (md : option bytes) : st * list out :=
  match md with
  | None => (s, [])
  | Some data =>
      if nil_b data then (s, []) else
      match nth_crash data 0 with
      | Ok t =>
          if t =? 17 then
            match notif_parse md with
            | Ok _ | Err ValueError => (s, [])
            | Crash | OutOfFuel => (s, [Raised])
            end
          else if negb (t =? 6) then (s, [])
          else
            match adv_parse md with
            | Ok a => step c s (Adv (Some (adv_descr a)))
            | Err ValueError => (s, [])
            | Crash | OutOfFuel => (s, [Raised])
            end
      | _ => (s, [Raised])
      end
  end.

(* ------------------------------------------------------------------ aggregate Controller.async_find *)
Record agg := {
  a_ip : st; a_ble : st;
  a_tbl : list (nat * nat)     (* call k -> number of transport lookups still running *)
}.
Definition agg0 : agg := {| a_ip := st0; a_ble := st0; a_tbl := [] |}.

Inductive aevent :=
| AFind (k : nat) (i : id) (tau : N)
| AAdvM (d : option descr)
| AAdvB (d : option descr)
| ACancel (k : nat)
| AAdvance (delta : N).

Fixpoint aget (k : nat) (l : list (nat * nat)) : option nat :=
  match l with [] => None | (k', n) :: r => if Nat.eqb k' k then Some n else aget k r end.
Definition adel (k : nat) (l : list (nat * nat)) : list (nat * nat) :=
  filter (fun p => negb (Nat.eqb (fst p) k)) l.
Definition aset (k n : nat) (l : list (nat * nat)) : list (nat * nat) :=
  map (fun p => if Nat.eqb (fst p) k then (k, n) else p) l.

(* cancel the transport lookups of call k (their own outcome is swallowed) *)
Definition cancel_subs (a : agg) (k : nat) : agg :=
  {| a_ip := fst (step mdns_cfg (a_ip a) (Cancel k));
     a_ble := fst (step ble_cfg (a_ble a) (Cancel k));
     a_tbl := adel k (a_tbl a) |}.

Definition absorb1 (ao : agg * list out) (o : out) : agg * list out :=
  let (a, acc) := ao in
  match o with
  | Raised => (a, acc ++ [Raised])
  | Done k oc t =>
      match aget k (a_tbl a) with
      | None => (a, acc)
      | Some n =>
          match oc with
          | Found d => (cancel_subs a k, acc ++ [Done k (Found d) t])
          | NotFound =>
              if (n <=? 1)%nat
              then ({| a_ip := a_ip a; a_ble := a_ble a; a_tbl := adel k (a_tbl a) |}, acc ++ [Done k NotFound t])
              else ({| a_ip := a_ip a; a_ble := a_ble a; a_tbl := aset k (n - 1) (a_tbl a) |}, acc)
          | Cancelled => (a, acc)
          end
      end
  end.
Definition absorb (a : agg) (os : list out) : agg * list out := fold_left absorb1 os (a, []).

Definition both (a : agg) (e : event) : agg * list out :=
  let (s1, o1) := step mdns_cfg (a_ip a) e in
  let (s2, o2) := step ble_cfg (a_ble a) e in
  absorb {| a_ip := s1; a_ble := s2; a_tbl := a_tbl a |} (o1 ++ o2).

Definition astep (a : agg) (e : aevent) : agg * list out :=
  match e with
  | AFind k i tau =>
      both {| a_ip := a_ip a; a_ble := a_ble a; a_tbl := (k, 2%nat) :: a_tbl a |} (Find k i tau)
  | AAdvM d =>
      let (s1, o1) := step mdns_cfg (a_ip a) (Adv d) in
      absorb {| a_ip := s1; a_ble := a_ble a; a_tbl := a_tbl a |} o1
  | AAdvB d =>
      let (s2, o2) := step ble_cfg (a_ble a) (Adv d) in
      absorb {| a_ip := a_ip a; a_ble := s2; a_tbl := a_tbl a |} o2
  | ACancel k =>
      match aget k (a_tbl a) with
      | None => (a, [])
      | Some _ => (cancel_subs a k, [Done k Cancelled (now (a_ip a))])
      end
  | AAdvance delta => both a (Advance delta)
  end.

Fixpoint arun (a : agg) (evs : list aevent) : agg * list out :=
  match evs with
  | [] => (a, [])
  | e :: r =>
      let (a1, o1) := astep a e in
      let (a2, o2) := arun a1 r in
      (a2, o1 ++ o2)
  end.

(* ------------------------------------------------------------------ encrypted notifications inside the scanner callback
   BlePairing._async_notification, called by _device_detected for manufacturer data of type 0x11.
   Decryption is abstract: [opens] lists, for THIS payload and advertising identifier, the state numbers at
   which BroadcastDecryptionKey.decrypt returns a plaintext (authenticity/freshness are C18's subject);
   nothing is assumed about it.  [guard] = fixes/C19-encrypted-notification-never-raises.patch applied. *)
Inductive vfmt := FBool | FU8 | FU16 | FU32 | FU64 | FInt | FFloat | FString | FOther.

(* struct.unpack_from(fmt, value): struct.error unless the buffer has that many bytes *)
Definition need (f : vfmt) : nat :=
  match f with
  | FBool | FU8 => 1 | FU16 => 2 | FU32 | FInt | FFloat => 4 | FU64 => 8 | FString | FOther => 0
  end%nat.

(* bytes.decode("utf-8"): the strict decoder (RFC 3629 table 3-7) *)
Definition cont (b : N) : bool := (128 <=? b) && (b <=? 191).
Definition between (lo hi b : N) : bool := (lo <=? b) && (b <=? hi).
Fixpoint utf8_go (fuel : nat) (l : bytes) : bool :=
  match fuel with
  | O => nil_b l
  | S f =>
      match l with
      | [] => true
      | b :: r =>
          if b <? 128 then utf8_go f r
          else if between 194 223 b then
            match r with c1 :: r1 => cont c1 && utf8_go f r1 | _ => false end
          else if between 224 239 b then
            match r with
            | c1 :: c2 :: r2 =>
                (if b =? 224 then between 160 191 c1 else if b =? 237 then between 128 159 c1 else cont c1)
                && cont c2 && utf8_go f r2
            | _ => false
            end
          else if between 240 244 b then
            match r with
            | c1 :: c2 :: c3 :: r3 =>
                (if b =? 240 then between 144 191 c1 else if b =? 244 then between 128 143 c1 else cont c1)
                && cont c2 && cont c3 && utf8_go f r3
            | _ => false
            end
          else false
      end
  end.
Definition utf8_ok (l : bytes) : bool := utf8_go (length l) l.

(* values.from_bytes(char, value) as far as raising is concerned *)
Definition from_bytes_chk (f : vfmt) (v : bytes) : res perr unit :=
  match f with
  | FString => if utf8_ok v then Ok tt else Crash
  | FOther => Ok tt
  | _ => if (need f <=? length v)%nat then Ok tt else Crash
  end.

Record npair := {
  np_key : bool;                          (* a broadcast key is known *)
  np_sn : option N;                       (* description.state_num; None = no description yet *)
  np_db : option (list (N * vfmt))        (* characteristics of accessory aid 1; None = no such accessory *)
}.

Inductive nres :=
| NNoKey          (* no broadcast key: processed as disconnected event *)
| NNoDescription  (* "before advertisement": logged, dropped *)
| NUndecryptable  (* no candidate state number opens it: processed as disconnected event *)
| NStale          (* opens at the current state number: ignored *)
| NMismatch       (* inner state number differs: ignored *)
| NDelivered (iid : N)     (* listeners called *)
| NPoll (iid : N)          (* authentic, characteristic unknown: state number advanced, poll instead (repaired code) *)
| NDropped (iid : N)       (* authentic, value undecodable: state number advanced, dropped (repaired code) *)
| NRaisedOut.              (* an exception leaves _async_notification *)

Fixpoint nlookup {A} (k : N) (l : list (N * A)) : option A :=
  match l with [] => None | (k', v) :: r => if k' =? k then Some v else nlookup k r end.

(* candidate state numbers, in the order the code tries them *)
Definition cands (start : N) : list N :=
  (start + 1) :: start :: map (fun i => start + 2 + N.of_nat i) (seq 0 98).

Fixpoint first_open (cs : list N) (opens : list (N * bytes)) : option (N * bytes) :=
  match cs with
  | [] => None
  | c :: r => match nlookup c opens with Some pt => Some (c, pt) | None => first_open r opens end
  end.

Definition set_sn (p : npair) (n : N) : npair := {| np_key := np_key p; np_sn := Some n; np_db := np_db p |}.

Definition notif_handle (guard : bool) (p : npair) (opens : list (N * bytes)) : npair * nres :=
  if negb (np_key p) then (p, NNoKey) else
  match np_sn p with
  | None => (p, NNoDescription)
  | Some start =>
      match first_open (cands start) opens with
      | None => (p, NUndecryptable)
      | Some (c, pt) =>
          if c =? start then (p, NStale) else
          let gsn := le_dec (slice pt 0 2) in
          if negb (gsn =? c) then (p, NMismatch) else
          let iid := le_dec (slice pt 2 4) in
          let value := slice pt 4 12 in
          let p' := set_sn p gsn in
          match np_db p with
          | None => (p', if guard then NPoll iid else NRaisedOut)              (* accessories.aid(1): KeyError *)
          | Some db =>
              match nlookup iid db with
              | None => (p', if guard then NPoll iid else NRaisedOut)          (* from_bytes(None, ..): AttributeError *)
              | Some f =>
                  match from_bytes_chk f value with
                  | Ok _ => (p', NDelivered iid)
                  | _ => (p', if guard then NDropped iid else NRaisedOut)      (* struct.error / UnicodeDecodeError *)
                  end
              end
          end
      end
  end.

(* the complete scanner callback: [ble_callback] plus the pairing side of the type-0x11 branch and the
   description update a type-0x06 advertisement makes on a loaded pairing *)
Definition nupdate (k : id) (p : npair) (l : list (id * npair)) : list (id * npair) :=
  map (fun kv => if beq (fst kv) k then (k, p) else kv) l.

Definition ble_callback_full (c : cfg) (guard : bool) (s : st) (nps : list (id * npair))
           (opens : list (N * bytes)) (md : option bytes) : st * list (id * npair) * list out * option nres :=
  match md with
  | Some (17 :: _) =>
      match notif_parse md with
      | Ok n =>
          match alookup (hn_id n) nps with
          | None => (s, nps, [], None)
          | Some p =>
              let (p', r) := notif_handle guard p opens in
              (s, nupdate (hn_id n) p' nps, match r with NRaisedOut => [Raised] | _ => [] end, Some r)
          end
      | Err _ => (s, nps, [], None)
      | _ => (s, nps, [Raised], None)
      end
  | _ =>
      let (s', o) := ble_callback c s md in
      let nps' :=
        match md, o with
        | Some (6 :: _), [Raised] => nps
        | Some (6 :: _), _ =>
            match adv_parse md with
            | Ok a => match alookup (ha_id a) nps with
                      | Some p => nupdate (ha_id a) (set_sn p (ha_sn a)) nps
                      | None => nps
                      end
            | _ => nps
            end
        | _, _ => nps
        end in
      (s', nps', o, None)
  end.
