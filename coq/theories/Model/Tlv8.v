(* Model of aiohomekit/tlv8.py : tlv_iterator (fragment re-joining with look-ahead),
   tlv_array (list splitting on separator items), the per-type (de)serialisers,
   TLVStruct.encode / TLVStruct.decode, over a schema universe [ty].
   The schemas themselves are NOT copied here: harness/c16.py reflects every
   TLVStruct subclass at run time and sends its schema to the extracted model.

   Sequence[<fixed width int>] (linked services) is modelled as the CURRENT code
   behaves: decoded through tlv_array (split at every 0x00 *type* byte, then the int
   deserialiser per piece), encoding a non-empty list raises AttributeError.  That
   is a known finding; the packed little-endian array the specification asks for
   is kept on the specification side ([spec_pack]/[spec_unpack]).

   Definitions only; proofs are in Proofs/Tlv8*.v.

   Nesting: [ty]/[val] are nested through [list]; the recursive functions
   [enc]/[dec]/[fits]/[wf]/[spec] recurse on an explicit nesting-depth fuel [n]
   (one unit per struct level), and the theorems hold for EVERY n. *)
From Coq Require Import List NArith Arith Bool.
From AHK Require Import Lib.Res Lib.ByteStr.
Import ListNotations.

(* ---- schema universe ------------------------------------------------------ *)
Inductive ikind := U8 | U16 | BU16 | U32 | U64 | U128.

Inductive ty :=
| TInt (k : ikind)                 (* u8 u16 bu16 u32 u64 u128 *)
| TEnum (members : list N)         (* enum.IntEnum subclass, one byte on the wire *)
| TStr                             (* str, utf-8 *)
| TBytes                           (* bytes *)
| TStruct (fs : list (N * ty))     (* nested TLVStruct: (tlv_type, field type) in declaration order *)
| TSeq (fs : list (N * ty))        (* Sequence[TLVStruct subclass]: element schema *)
| TSeqInt (k : ikind)              (* Sequence[u16] etc (linked services) *)
| TUnsupp.                         (* any annotation without (de)serialiser, e.g. float *)

Definition fields := list (N * ty).

(* values.  Str and Bytes both carry the wire bytes (for Str: the utf-8 encoding,
   produced/consumed by the harness with Python's own codec; validity is modelled).
   A struct value is positional: one [option] per init-field, None = unset. *)
Inductive val :=
| VInt (n : N)
| VB (b : bytes)
| VStruct (vs : list (option val))
| VSeq (l : list (list (option val)))
| VIds (l : list N).

Definition svals := list (option val).

(* TlvParseException | TlvSerializeException | struct.error/OverflowError | ValueError (incl. UnicodeDecodeError)
   | AttributeError (serialize_typing_sequence calling .encode() on an int) *)
Inductive terr := EParse | ESerialize | ERange | EValue | EAttr.
Definition R := res terr.

(* ---- scalars ---------------------------------------------------------------- *)
Definition iwidth (k : ikind) : nat :=
  match k with U8 => 1 | U16 => 2 | BU16 => 2 | U32 => 4 | U64 => 8 | U128 => 16 end.
Definition ienc (k : ikind) (n : N) : bytes :=
  match k with BU16 => be_enc 2 n | _ => le_enc (iwidth k) n end.
(* int.from_bytes(value, order): no length check in the implementation *)
Definition idec (k : ikind) (b : bytes) : N :=
  match k with BU16 => be_dec b | _ => le_dec b end.
Definition irange (k : ikind) (n : N) : bool := N.ltb n (256 ^ N.of_nat (iwidth k)).

(* Python's strict utf-8 decoder (RFC 3629: no overlongs, no surrogates, <= U+10FFFF) *)
Definition inr (lo hi b : N) : bool := N.leb lo b && N.leb b hi.
Definition cont (b : N) : bool := inr 128 191 b.
Fixpoint utf8_valid (s : bytes) : bool :=
  match s with
  | [] => true
  | b0 :: r0 =>
      if N.leb b0 127 then utf8_valid r0
      else
        match r0 with
        | [] => false
        | b1 :: r1 =>
            if inr 194 223 b0 then cont b1 && utf8_valid r1
            else
              match r1 with
              | [] => false
              | b2 :: r2 =>
                  if inr 224 239 b0 then
                    (if N.eqb b0 224 then inr 160 191 b1
                     else if N.eqb b0 237 then inr 128 159 b1
                     else cont b1) && cont b2 && utf8_valid r2
                  else
                    match r2 with
                    | [] => false
                    | b3 :: r3 =>
                        if inr 240 244 b0 then
                          (if N.eqb b0 240 then inr 144 191 b1
                           else if N.eqb b0 244 then inr 128 143 b1
                           else cont b1) && cont b2 && cont b3 && utf8_valid r3
                        else false
                    end
              end
        end
  end.

(* sequencing helpers *)
Fixpoint map_res {A B} (f : A -> R B) (l : list A) : R (list B) :=
  match l with
  | [] => Ok []
  | a :: r => rbind (f a) (fun b => rbind (map_res f r) (fun bs => Ok (b :: bs)))
  end.

(* how a generator ended: exhausted normally, raised IndexError, model fuel *)
Inductive fin := FinOk | FinCrash | FinFuel.
Definition finish {A} (e : fin) (x : A) : R A :=
  match e with FinOk => Ok x | FinCrash => Crash | FinFuel => OutOfFuel end.

Fixpoint assoc_last {A} (tag : N) (kv : list (N * A)) : option A :=
  match kv with
  | [] => None
  | (k, x) :: r =>
      match assoc_last tag r with
      | Some y => Some y
      | None => if N.eqb k tag then Some x else None
      end
  end.

(* cls._tlv_types(): dict comprehension over fields, a later field with the same tag wins *)
Definition ftype_last (tag : N) (fs : fields) : option ty := assoc_last tag fs.

(* the dataclass constructor: field i receives the last decoded item carrying its tag, provided
   field i is the one _tlv_types maps that tag to (the last field with the tag) *)
Fixpoint build (fs : fields) (kv : list (N * val)) : svals :=
  match fs with
  | [] => []
  | (k, _) :: r => (if mem_N k (map fst r) then None else assoc_last k kv) :: build r kv
  end.

Fixpoint nodup_b (l : list N) : bool :=
  match l with [] => true | x :: r => negb (mem_N x r) && nodup_b r end.

Definition is_set (o : option val) : bool := match o with Some _ => true | None => false end.
Definition any_set (vs : svals) : bool := existsb is_set vs.

Fixpoint join (sep : bytes) (l : list bytes) : bytes :=
  match l with
  | [] => []
  | [x] => x
  | x :: r => x ++ sep ++ join sep r
  end.

Section TLV8.
  (* maximal fragment size; 255 in the implementation (both in TLVStruct.encode's
     range step and in tlv_iterator's "length == 255" look-ahead test) *)
  Variable F : nat.

  (* ---- tlv_iterator ---------------------------------------------------- *)
  (* one yielded tuple.  The implementation yields (offset, type, length, value)
     where offset/length are those of the LAST fragment of the value; we keep the
     bytes instead of offsets: consumed input = y_pre ++ y_tag :: y_len :: y_last,
     y_next = input from [offset + 2 + length] on. *)
  Record yield := { y_tag : N; y_len : N; y_val : bytes; y_pre : bytes; y_last : bytes; y_next : bytes }.

  (* inner "while length == 255" loop.  [body] = input after the current
     fragment's two header bytes.  Slices clamp (a truncated last fragment yields
     what is there); indexing past the end is IndexError = Crash. *)
  Fixpoint gather (fuel : nat) (t l : N) (body value pre : bytes) : R yield :=
    match fuel with
    | O => OutOfFuel
    | S f =>
        let stop := Ok {| y_tag := t; y_len := l; y_val := value; y_pre := pre;
                          y_last := firstn (N.to_nat l) body; y_next := skipn (N.to_nat l) body |} in
        if N.eqb l (N.of_nat F) then
          match skipn F body with                 (* peek_offset >= len(encoded_struct): break *)
          | [] => stop
          | t' :: r =>
              if N.eqb t' t then                  (* encoded_struct[peek_offset] == type *)
                match r with
                | [] => Crash                     (* length = encoded_struct[offset + 1]: IndexError *)
                | l' :: body' =>
                    gather f t l' body' (value ++ firstn (N.to_nat l') body')
                           (pre ++ t :: l :: firstn F body)
                end
              else stop
          end
        else stop
    end.

  Definition step (s : bytes) : R yield :=
    match s with
    | [] => Crash
    | [_] => Crash                                (* length byte missing: IndexError *)
    | t :: l :: body => gather (S (length body)) t l body (firstn (N.to_nat l) body) []
    end.

  (* all (type, value) pairs the generator yields, and how it ended *)
  Fixpoint items_f (fuel : nat) (s : bytes) : list (N * bytes) * fin :=
    match fuel with
    | O => ([], FinFuel)
    | S f =>
        match s with
        | [] => ([], FinOk)
        | _ =>
            match step s with
            | Ok y => let (l, e) := items_f f (y_next y) in ((y_tag y, y_val y) :: l, e)
            | OutOfFuel => ([], FinFuel)
            | _ => ([], FinCrash)
            end
        end
    end.
  Definition items (s : bytes) := items_f (S (length s)) s.

  (* ---- tlv_array (separator = 0) ------------------------------------------ *)
  (* [cur] = encoded_array[start : current offset] *)
  Fixpoint arr_f (fuel : nat) (s cur : bytes) : list bytes * fin :=
    match fuel with
    | O => ([], FinFuel)
    | S f =>
        match s with
        | [] => (if nil_b cur then [] else [cur], FinOk)      (* item = encoded_array[start:]; if item: yield *)
        | _ =>
            match step s with
            | Ok y =>
                if N.eqb (y_tag y) 0 then
                  (* yield encoded_array[start:offset]; start = offset + 2 *)
                  let (l, e) := arr_f f (y_next y) (y_last y) in ((cur ++ y_pre y) :: l, e)
                else arr_f f (y_next y) (cur ++ y_pre y ++ y_tag y :: y_len y :: y_last y)
            | OutOfFuel => ([], FinFuel)
            | _ => ([], FinCrash)
            end
        end
    end.
  Definition tlv_array (s : bytes) := arr_f (S (length s)) s [].

  (* ---- TLVStruct.encode ------------------------------------------------------ *)
  (* for offset in range(0, len(encoded), 255): tag, len(chunk), chunk.  Nothing at
     all for an empty serialisation.  fuel: length e suffices (F > 0). *)
  Fixpoint frags (fuel : nat) (tag : N) (e : bytes) : bytes :=
    match fuel with
    | O => []
    | S f =>
        match e with
        | [] => []
        | _ => tag :: N.of_nat (length (firstn F e)) :: firstn F e ++ frags f tag (skipn F e)
        end
    end.
  Definition emit (tag : N) (e : bytes) : bytes := frags (length e) tag e.

  (* SPECIFICATION side: Sequence[int kind] as a packed array of fixed-width ids
     (HAP: "linked services").  Not what the current code does - see [enc]/[dec]. *)
  Fixpoint spec_pack (k : ikind) (l : list N) : R bytes :=
    match l with
    | [] => Ok []
    | x :: r => if irange k x then rbind (spec_pack k r) (fun t => Ok (ienc k x ++ t)) else Err ERange
    end.
  Fixpoint spec_unpack_f (fuel : nat) (k : ikind) (b : bytes) : list N :=
    match fuel with
    | O => []
    | S f =>
        if length b <? iwidth k then []
        else idec k (firstn (iwidth k) b) :: spec_unpack_f f k (skipn (iwidth k) b)
    end.
  Definition spec_unpack (k : ikind) (b : bytes) : list N := spec_unpack_f (length b) k b.

  Section EncRec.
    Variable enc_rec : ty -> val -> R bytes.
    (* for struct_field in fields(self): skip None; serialise; chunk *)
    Fixpoint enc_fields (fs : fields) (vs : svals) : R bytes :=
      match fs, vs with
      | [], [] => Ok []
      | (tag, ft) :: fr, o :: vr =>
          match o with
          | None => enc_fields fr vr
          | Some fv =>
              rbind (enc_rec ft fv) (fun e =>
              rbind (enc_fields fr vr) (fun rest => Ok (emit tag e ++ rest)))
          end
      | _, _ => Crash                              (* arity mismatch: not constructible *)
      end.
    (* serialize_typing_sequence: first.encode(), then b"\x00\x00" + val.encode() *)
    Fixpoint enc_seq (fs : fields) (l : list svals) (first : bool) : R bytes :=
      match l with
      | [] => Ok []
      | vs :: r =>
          rbind (enc_fields fs vs) (fun e =>
          rbind (enc_seq fs r false) (fun rest =>
          Ok ((if first then [] else [0%N; 0%N]) ++ e ++ rest)))
      end.
  End EncRec.

  Fixpoint enc (n : nat) (t : ty) (v : val) : R bytes :=
    match n with
    | O => OutOfFuel
    | S n' =>
        match t, v with
        | TUnsupp, _ => Err ESerialize                           (* find_serializer raises *)
        | TInt k, VInt x => if irange k x then Ok (ienc k x) else Err ERange
        | TEnum _, VInt x => if N.ltb x 256 then Ok [x] else Err ERange   (* serialize_u8(int(value)); membership not checked *)
        | TStr, VB b => Ok b
        | TBytes, VB b => Ok b
        | TStruct fs, VStruct vs => enc_fields (enc n') fs vs
        | TSeq fs, VSeq l => enc_seq (enc n') fs l true
        | TSeqInt k, VIds l =>
            (* serialize_typing_sequence: "if not value: return b''"; otherwise
               next(value_iter).encode() on an int: AttributeError *)
            match l with [] => Ok [] | _ :: _ => Err EAttr end
        | _, _ => Crash                                          (* value of another Python type *)
        end
    end.

  (* ---- TLVStruct.decode -------------------------------------------------------- *)
  Section DecRec.
    Variable dec_rec : ty -> bytes -> R val.
    Definition dec_item (fs : fields) (it : N * bytes) : R (N * val) :=
      match ftype_last (fst it) fs with
      | None => Err EParse                                       (* Unknown TLV type *)
      | Some ft => rbind (dec_rec ft (snd it)) (fun v => Ok (fst it, v))
      end.
    (* items are deserialised as the generator yields them; an IndexError of the
       generator therefore comes after the errors of earlier items *)
    Definition dec_struct (fs : fields) (b : bytes) : R svals :=
      let (its, e) := items b in
      rbind (map_res (dec_item fs) its) (fun kv => finish e (build fs kv)).
    Definition dec_seq (fs : fields) (b : bytes) : R (list svals) :=
      let (its, e) := tlv_array b in
      rbind (map_res (dec_struct fs) its) (fun l => finish e l).
  End DecRec.

  Fixpoint dec (n : nat) (t : ty) (b : bytes) : R val :=
    match n with
    | O => OutOfFuel
    | S n' =>
        match t with
        | TInt k => Ok (VInt (idec k b))
        | TEnum ms => let x := le_dec b in if mem_N x ms then Ok (VInt x) else Err EValue
        | TStr => if utf8_valid b then Ok (VB b) else Err EValue
        | TBytes => Ok (VB b)
        | TStruct fs => rbind (dec_struct (dec n') fs b) (fun vs => Ok (VStruct vs))
        | TSeq fs => rbind (dec_seq (dec n') fs b) (fun l => Ok (VSeq l))
        | TSeqInt k =>
            (* deserialize_typing_sequence: tlv_array(value), then int.from_bytes per piece *)
            let (its, e) := tlv_array b in finish e (VIds (map (idec k) its))
        | TUnsupp => Err EParse                                  (* find_deserializer raises *)
        end
    end.

  (* ---- specification side -------------------------------------------------------- *)
  (* textbook: maximal F-byte fragments of the serialisation, in declaration order;
     list items joined by a zero-length item of type 0 *)
  Definition spec_item (tag : N) (e : bytes) : bytes :=
    concat (map (fun c => tag :: N.of_nat (length c) :: c) (chunks F e)).

  Section SpecRec.
    Variable spec_rec : ty -> val -> bytes.
    Definition spec_field (p : (N * ty) * option val) : bytes :=
      match snd p with
      | None => []
      | Some v => spec_item (fst (fst p)) (spec_rec (snd (fst p)) v)
      end.
    Definition spec_fields (fs : fields) (vs : svals) : bytes :=
      concat (map spec_field (combine fs vs)).
  End SpecRec.

  Fixpoint spec (n : nat) (t : ty) (v : val) : bytes :=
    match n with
    | O => []
    | S n' =>
        match t, v with
        | TInt k, VInt x => ienc k x
        | TEnum _, VInt x => [x]
        | TStr, VB b => b
        | TBytes, VB b => b
        | TStruct fs, VStruct vs => spec_fields (spec n') fs vs
        | TSeq fs, VSeq l => join [0%N; 0%N] (map (spec_fields (spec n') fs) l)
        | TSeqInt k, VIds l => concat (map (ienc k) l)
        | _, _ => []
        end
    end.

  (* ---- domain of the round trip ---------------------------------------------------- *)
  (* schema: distinct one-byte tags per struct; no tag 0 in a struct used as a list
     element (0 is the list separator) *)
  Section WfRec.
    Variable wf_rec : ty -> bool.
    Definition wf_fields (fs : fields) : bool :=
      nodup_b (map fst fs) && forallb (fun p => N.ltb (fst p) 256 && wf_rec (snd p)) fs.
  End WfRec.
  Fixpoint wf (n : nat) (t : ty) : bool :=
    match n with
    | O => false
    | S n' =>
        match t with
        | TStruct fs => wf_fields (wf n') fs
        | TSeq fs => wf_fields (wf n') fs && negb (mem_N 0 (map fst fs))
        | _ => true
        end
    end.

  (* value: integers in range, enum members valid one-byte values, strings valid
     utf-8, and every SET field / list / list element serialises to at least one byte
     (an empty serialisation emits no TLV at all, so "set but empty" cannot be
     told from "unset" on the wire); a field of unsupported type must be unset *)
  Section FitsRec.
    Variable fits_rec : ty -> val -> bool.
    Fixpoint fits_fields (fs : fields) (vs : svals) : bool :=
      match fs, vs with
      | [], [] => true
      | (_, ft) :: fr, o :: vr =>
          match o with
          | None => fits_fields fr vr
          | Some fv => fits_rec ft fv && fits_fields fr vr
          end
      | _, _ => false
      end.
  End FitsRec.
  Fixpoint fits (n : nat) (t : ty) (v : val) : bool :=
    match n with
    | O => false
    | S n' =>
        match t, v with
        | TInt k, VInt x => irange k x
        | TEnum ms, VInt x => mem_N x ms && N.ltb x 256
        | TStr, VB b => negb (nil_b b) && utf8_valid b
        | TBytes, VB b => negb (nil_b b)
        | TStruct fs, VStruct vs => fits_fields (fits n') fs vs && any_set vs
        | TSeq fs, VSeq l =>
            negb (nil_b l) && forallb (fun vs => fits_fields (fits n') fs vs && any_set vs) l
        | _, _ => false                 (* incl. TUnsupp and TSeqInt: must be unset *)
        end
    end.
End TLV8.

(* ---- closed top-level functions (F = 255, fuel = nesting depth of the schema) ---- *)
Fixpoint ty_depth (t : ty) : nat :=
  match t with
  | TStruct fs => S (fold_right (fun p m => Nat.max (ty_depth (snd p)) m) 0 fs)
  | TSeq fs => S (fold_right (fun p m => Nat.max (ty_depth (snd p)) m) 0 fs)
  | _ => 0
  end.
Definition fuel_of (t : ty) : nat := S (ty_depth t).

Definition tlv8_encode (t : ty) (v : val) : R bytes := enc 255 (fuel_of t) t v.
Definition tlv8_decode (t : ty) (b : bytes) : R val := dec 255 (fuel_of t) t b.
Definition tlv8_spec (t : ty) (v : val) : bytes := spec 255 (fuel_of t) t v.
Definition wf_schema (t : ty) : bool := wf (fuel_of t) t.
(* value domain of a message (top level): like [fits] but a message with every
   field unset is allowed (it is the empty byte string) *)
Definition fits_top (n : nat) (t : ty) (v : val) : bool :=
  match n, t, v with
  | S n', TStruct fs, VStruct vs => fits_fields (fits n') fs vs
  | _, _, _ => fits n t v
  end.
Definition fits_msg (t : ty) (v : val) : bool := fits_top (fuel_of t) t v.
Definition tlv8_items := items 255.
Definition tlv8_array := tlv_array 255.
