(* C02 extension - model of aiohomekit/crypto/srp.py::SrpServer (the accessory side
   exported by aiohomekit.crypto and used by the repository's test accessory), as
   written.  Definitions only.  Same conventions as Model/Srp.v.

   [guard] distinguishes the class as it is today (false: no check of the client's
   public key) from the class with RFC 5054's "abort if A mod N = 0" in
   set_client_public_key (true); the harness determines which one the
   implementation is and compares with that variant. *)
From Coq Require Import List NArith ZArith Arith Bool.
From AHK Require Import Lib.Res Lib.ByteStr Model.Srp.
Import ListNotations.

Section SrpServerModel.
  Variable H : bytes -> bytes.
  Variable PM : Z -> Z -> Z -> Z.
  Variables (Nm g kc : Z) (hgroup : bytes) (L : nat).
  Variable PL : nat.                       (* proof length used by get_proof: 64 *)
  Local Open Scope Z_scope.

  Record sp_result := {
    p_B : Z;                (* get_public_key() *)
    p_B_b : bytes;          (* get_public_key_bytes() *)
    p_A_b : bytes;          (* A_b after set_client_public_key *)
    p_S : Z;                (* get_shared_secret() *)
    p_K : bytes;            (* get_session_key_bytes() *)
    p_M1 : bytes;           (* the digest verify_clients_proof compares with *)
    p_ok : bool;            (* verify_clients_proof_bytes(M1_b) *)
    p_M2 : bytes;           (* get_proof_bytes(M1_b) *)
    p_M2_int : sres Z       (* get_proof(int.from_bytes(M1_b)) *)
  }.

  (* SrpServer(I, P) with salt bytes and ephemeral b from os.urandom;
     set_client_public_key(pub) with pub an int ([inl]) or bytes ([inr]);
     then the getters, verify_clients_proof_bytes(M1_b), get_proof_bytes(M1_b), get_proof(int(M1_b)) *)
  Definition srpserver (guard : bool) (I P salt_b : bytes) (b : Z) (pub : Z + bytes) (M1_b : bytes)
    : sres sp_result :=
    let x := from_bytes (H (salt_b ++ H (I ++ [58%N] ++ P))) in       (* _calculate_client_password_x *)
    let v := PM g x Nm in                                              (* _get_verifier *)
    let B := (kc * v + PM g b Nm) mod Nm in
    rbind (padded B L) (fun B_b =>
    rbind (match pub with
           | inl A => rbind (padded A L) (fun A_b => Ok (A, A_b))
           | inr A_b => Ok (from_bytes A_b, A_b)
           end) (fun AA =>
    let '(A, A_b) := AA in
    if guard && (A mod Nm =? 0) then Err tt else
    let u := from_bytes (H (A_b ++ B_b)) in                            (* _calculate_u *)
    let S := PM (A * PM v u Nm) b Nm in                                (* get_shared_secret *)
    rbind (padded S L) (fun S_b =>
    let K := H S_b in
    let M1 := H (hgroup ++ H I ++ salt_b ++ A_b ++ B_b ++ K) in
    let m := from_bytes M1_b in
    Ok {| p_B := B; p_B_b := B_b; p_A_b := A_b; p_S := S; p_K := K; p_M1 := M1;
          p_ok := (m =? from_bytes M1);
          p_M2 := H (A_b ++ M1_b ++ K);
          p_M2_int := rbind (padded m PL) (fun al => Ok (from_bytes (H (A_b ++ al ++ K)))) |}))).

End SrpServerModel.
