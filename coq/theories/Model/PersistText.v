(* C20 - the TEXT layer between the JSON text (a sequence of Unicode code points, Python [str]) and the
   bytes of the file: open(filename, mode, encoding=E).  When E is omitted CPython takes the codec from
   the HOST (locale.getencoding(): UTF-8, ASCII under the POSIX C locale, an 8-bit code page elsewhere);
   aiohomekit passes encoding="utf-8" at its four persistence sites (Controller.load_data / save_data,
   CharacteristicCacheFile.__init__ / _do_save), which is what makes a restart independent of the host.
   Definitions only; lemmas in Proofs/PersistText.v. *)
From Coq Require Import List NArith Bool.
Import ListNotations.
Local Open Scope N_scope.

(* Unicode scalar values: what a Python str holds, lone surrogates excluded (orjson refuses them) *)
Definition scalarb (c : N) : bool := (c <? 55296) || ((57344 <=? c) && (c <? 1114112)).
Definition scalar (c : N) : Prop := scalarb c = true.
Definition asciib (c : N) : bool := c <? 128.

Definition enc1 (c : N) : list N :=
  if c <? 128 then [c]
  else if c <? 2048 then [192 + c / 64; 128 + c mod 64]
  else if c <? 65536 then [224 + c / 4096; 128 + (c / 64) mod 64; 128 + c mod 64]
  else [240 + c / 262144; 128 + (c / 4096) mod 64; 128 + (c / 64) mod 64; 128 + c mod 64].

Definition utf8_enc (s : list N) : list N := flat_map enc1 s.

Definition cont (b : N) : bool := (128 <=? b) && (b <? 192).

(* CPython's strict UTF-8 decoder as an acceptor: truncated sequences, stray continuation bytes, overlong
   forms, surrogates and values above U+10FFFF are rejected (UnicodeDecodeError = None) *)
Fixpoint utf8_dec (b : list N) : option (list N) :=
  match b with
  | [] => Some []
  | b0 :: t =>
      if b0 <? 128 then option_map (cons b0) (utf8_dec t)
      else if b0 <? 194 then None
      else if b0 <? 224 then
        match t with
        | b1 :: t1 =>
            if cont b1 then option_map (cons ((b0 - 192) * 64 + (b1 - 128))) (utf8_dec t1) else None
        | _ => None
        end
      else if b0 <? 240 then
        match t with
        | b1 :: b2 :: t2 =>
            let c := (b0 - 224) * 4096 + (b1 - 128) * 64 + (b2 - 128) in
            if cont b1 && cont b2 && (2048 <=? c) && negb ((55296 <=? c) && (c <? 57344))
            then option_map (cons c) (utf8_dec t2) else None
        | _ => None
        end
      else if b0 <? 245 then
        match t with
        | b1 :: b2 :: b3 :: t3 =>
            let c := (b0 - 240) * 262144 + (b1 - 128) * 4096 + (b2 - 128) * 64 + (b3 - 128) in
            if cont b1 && cont b2 && cont b3 && (65536 <=? c) && (c <? 1114112)
            then option_map (cons c) (utf8_dec t3) else None
        | _ => None
        end
      else None
  end.

Definition dec_ascii (b : list N) : option (list N) := if forallb asciib b then Some b else None.
Definition dec_latin1 (b : list N) : option (list N) := if forallb (fun x => x <? 256) b then Some b else None.

Inductive codec := Utf8 | Ascii | Latin1.

Definition enc_with (k : codec) (s : list N) : option (list N) :=
  match k with
  | Utf8 => if forallb scalarb s then Some (utf8_enc s) else None
  | Ascii => if forallb asciib s then Some s else None            (* UnicodeEncodeError otherwise *)
  | Latin1 => if forallb (fun x => x <? 256) s then Some s else None
  end.

Definition dec_with (k : codec) (b : list N) : option (list N) :=
  match k with Utf8 => utf8_dec b | Ascii => dec_ascii b | Latin1 => dec_latin1 b end.

(* open(..., encoding=explicit) on a host whose locale codec is [host] *)
Definition effective (explicit : option codec) (host : codec) : codec :=
  match explicit with Some k => k | None => host end.

Definition text_write (explicit : option codec) (host : codec) (s : list N) : option (list N) :=
  enc_with (effective explicit host) s.
Definition text_read (explicit : option codec) (host : codec) (b : list N) : option (list N) :=
  dec_with (effective explicit host) b.

(* save on host hw (writer's encoding argument ew), restart, load on host hr (reader's argument er) *)
Definition text_restart (ew er : option codec) (hw hr : codec) (s : list N) : option (list N) :=
  match text_write ew hw s with Some b => text_read er hr b | None => None end.
