(* C09 extension - the connection as a machine over a HISTORY of events, and the
   hand-off of a request to the transport.

   Anchors (aiohomekit/controller/ip/connection.py):
     HomeKitConnection._connect_once      sets transport/protocol, connected_host and the
                                          FIELD host_header (never cleared afterwards)
     SecureHomeKitConnection._connect_once  after pair-verify: protocol := SecureHomeKitProtocol
                                          (fresh c2a counter 0)
     _drop_transport / _connection_lost / close   transport, protocol := None
     request()                            raises AccessoryDisconnectedError when there is no
                                          protocol, else builds the bytes with the host_header
                                          FIELD and awaits protocol.send_bytes(bytes)
     InsecureHomeKitProtocol.send_bytes   _send_lines((payload,))
     SecureHomeKitProtocol.send_bytes     1024-byte chunks, each [LE16 len][seal(len, nonce ctr, chunk)],
                                          counter incremented per chunk, ONE _send_lines(buffer)
     _send_lines                          ONE transport.writelines(list) call

   The AEAD is a Section parameter [seal ctr aad plaintext]; nothing is assumed about it.
   The chunk size is the Section variable [F] (instantiated with 1024 in Props/C09.v). *)
From Coq Require Import List NArith ZArith Arith Bool String.
From AHK Require Import Lib.Res Lib.ByteStr Model.Request.
Import ListNotations.
Local Open Scope N_scope.

(* request(): as [render] but with the stored Host LINE (the host_header field) *)
Definition render_with (method target : bytes) (headers : list (bytes * bytes)) (body hostline : bytes) : bytes :=
  join CRLF ([upper method ++ [SP] ++ target ++ lit " HTTP/1.1"; hostline]
             ++ map hdr_line headers ++ [[]; []])
  ++ body.

Definition request_bytes (m : meth) (target : bytes) (body : option (ctype * bytes)) (hostline : bytes) : bytes :=
  match body with
  | None => render_with (meth_name m) target [] [] hostline
  | Some (ct, b) => render_with (meth_name m) target (body_headers ct b) b hostline
  end.

Inductive proto := Plain | Secure.

Record conn := mkConn {
  c_proto : option proto;          (* self.protocol *)
  c_connected : option bytes;      (* self.connected_host *)
  c_hostline : option bytes;       (* self.host_header: assigned in _connect_once, never cleared *)
  c_ctr : N                        (* protocol.c2a_counter of the secure protocol *)
}.

Definition conn_init : conn := mkConn None None None 0.

Inductive ev :=
| EConnect (h : bytes)             (* HomeKitConnection._connect_once reached peer h *)
| ESecure                          (* pair-verify done: protocol switched *)
| ELost                            (* connection_lost / _drop_transport *)
| EClose                           (* close() *)
| EReq (m : meth) (target : bytes) (body : option (ctype * bytes)).   (* get / put / post *)

(* what the outside sees of one request() call *)
Inductive obs :=
| ORaise                                        (* AccessoryDisconnectedError, nothing written *)
| OCall (payload : bytes) (chunks : list bytes).   (* ONE writelines(chunks); payload = what send_bytes got *)

Section Wire.
  Variable F : nat.
  Variable seal : N -> bytes -> bytes -> bytes.

  Definition len_prefix (c : bytes) : bytes := le_enc 2 (N.of_nat (List.length c)).

  (* SecureHomeKitProtocol.send_bytes: the buffer handed to _send_lines *)
  Fixpoint frames (ctr : N) (cs : list bytes) : list bytes :=
    match cs with
    | [] => []
    | c :: r => len_prefix c :: seal ctr (len_prefix c) c :: frames (ctr + 1) r
    end.

  Definition send (c : conn) (payload : bytes) : conn * list obs :=
    match c_proto c with
    | None => (c, [ORaise])
    | Some Plain => (c, [OCall payload [payload]])
    | Some Secure =>
        let cs := chunks F payload in
        (mkConn (c_proto c) (c_connected c) (c_hostline c) (c_ctr c + N.of_nat (List.length cs)),
         [OCall payload (frames (c_ctr c) cs)])
    end.

  Definition step (c : conn) (e : ev) : conn * list obs :=
    match e with
    | EConnect h => (mkConn (Some Plain) (Some h) (Some (host_header h)) (c_ctr c), [])
    | ESecure =>
        match c_proto c with
        | Some _ => (mkConn (Some Secure) (c_connected c) (c_hostline c) 0, [])
        | None => (c, [])
        end
    | ELost | EClose => (mkConn None (c_connected c) (c_hostline c) (c_ctr c), [])
    | EReq m t b =>
        match c_proto c with
        | None => (c, [ORaise])
        | Some _ =>
            match c_hostline c with
            | Some hl => send c (request_bytes m t b hl)
            | None => (c, [ORaise])        (* unreachable: see [run_inv] *)
            end
        end
    end.

  (* a written observation is ONE call: the payload itself (plain), or the frames of
     non-empty chunks of at most F bytes that concatenate to the payload (secure) *)
  Definition call_ok (o : obs) : Prop :=
    match o with
    | ORaise => True
    | OCall p chunks =>
        chunks = [p] \/
        exists ctr cs, chunks = frames ctr cs /\ List.concat cs = p
                       /\ Forall (fun x => (0 < List.length x <= F)%nat) cs
    end.

  Fixpoint run (c : conn) (evs : list ev) : conn * list obs :=
    match evs with
    | [] => (c, [])
    | e :: r => let (c1, o1) := step c e in let (c2, o2) := run c1 r in (c2, o1 ++ o2)
    end.
End Wire.

(* the specification of a history, short enough to read: a request issued while a
   connection is up is the canonical request naming THAT connection's peer *)
Fixpoint spec (cur : option bytes) (evs : list ev) : list (option bytes) :=
  match evs with
  | [] => []
  | EConnect h :: r => spec (Some h) r
  | ESecure :: r => spec cur r
  | ELost :: r | EClose :: r => spec None r
  | EReq m t b :: r =>
      match cur with
      | Some h => Some (render_req (mkReq m t h b))
      | None => None
      end :: spec cur r
  end.

Fixpoint count_req (evs : list ev) : nat :=
  match evs with
  | [] => 0%nat
  | EReq _ _ _ :: r => S (count_req r)
  | _ :: r => count_req r
  end.

Definition obs_payload (o : obs) : option bytes :=
  match o with ORaise => None | OCall p _ => Some p end.

(* the plaintext chunks the secure frames of a call were made from *)
Definition call_count (o : obs) : nat := match o with ORaise => 0%nat | OCall _ _ => 1%nat end.

(* toy AEAD used by the extracted driver: ciphertext = plaintext (the harness decrypts the real frames) *)
Definition seal_id (ctr : N) (aad pt : bytes) : bytes := pt.
Definition run1024 := run 1024 seal_id.
