(* C08 - request/response dispatch of one HomeKit IP connection.

   Model of aiohomekit/controller/ip/connection.py:
     InsecureHomeKitProtocol / SecureHomeKitProtocol
        result_cbs (FIFO of futures), _send_lines (append future, 30 s call_at
        timer, writelines, close the transport on ANY exception incl. timeout
        and cancellation), data_received (complete HTTP message => pop(0) of
        result_cbs, EVENT => owner.event_received, other name => RuntimeError),
        eof_received / connection_lost => _cancel_pending_requests
     HomeKitConnection.request
        "if not self.protocol: raise AccessoryDisconnectedError", the
        _concurrency_limit semaphore (asyncio.Semaphore, FIFO waiters), and the
        second protocol check after the semaphore was acquired.

   One LTS state = one protocol object (one TCP connection) + the semaphore, at
   a QUIESCENT point of the event loop (no callback ready).  [step] consumes one
   external event and runs the loop to quiescence (DESIGN.md 3.3).  At quiescent
   points the asyncio plumbing collapses to the few fields below:
     - transport open   <->  protocol is not None and not transport.is_closing()
       (close() schedules connection_lost with call_soon; _connection_lost clears
       connection.protocol; both happen before quiescence)
     - result_cbs holds exactly the futures of the requests in flight (a done
       future only stays in result_cbs after a timeout/cancel, and then the
       transport is closed and connection_lost empties the list)
     - semaphore value = cap - |inflight|.
   Byte-level parsing and decryption are C07/C05's business: a [Data] event is
   ONE data_received call that completes the listed whole messages (in stream
   order), a [Frag] event is a read that completes no message.

   Time is N in ticks of 1/4096 s; [T30] is the 30 s timeout (122880 ticks),
   [cap] the semaphore's initial value (1 for a pairing's connection).
   Definitions only; proofs are in Proofs/Disp*.v. *)
From Coq Require Import List NArith Arith Bool.
Import ListNotations.

Definition rid := nat.

Inductive mkind := KHttp | KEvent | KOther.
Definition msg := (mkind * N)%type.          (* protocol name, payload serial *)

Inductive event :=
| Issue                      (* a new caller awaits connection.request(); ids are 0,1,2,... *)
| Data (ms : list msg)       (* one read completing these messages *)
| Frag                       (* a read completing no message *)
| Cancel (r : rid)           (* caller r's task is cancelled *)
| Advance (dt : N)           (* virtual time passes; due timers fire in order *)
| PeerClose                  (* connection reset by peer: connection_lost(exc) *)
| PeerEof                    (* FIN: eof_received() -> False -> transport.close() *)
| LocalClose.                (* another task awaits connection.close() / pairing.close(): closing := True,
                                _drop_transport() (transport.close(), transport/protocol := None at once),
                                connection_lost via call_soon -> _cancel_pending_requests() *)

Inductive outcome :=
| Resp (n : N)               (* the caller got the HTTP message with payload n *)
| Disconnected               (* AccessoryDisconnectedError *)
| Cancelled                  (* CancelledError *)
| TimedOut.                  (* AccessoryDisconnectedError raised from the 30 s TimeoutError *)

Inductive output :=
| OWrote (r : rid) (t : N)               (* transport.writelines for request r at time t *)
| ODone (r : rid) (o : outcome) (t : N)  (* caller r completed *)
| OEvent (n : N) (t : N)                 (* owner.event_received *)
| OCrash (t : N)                         (* data_received raised (IndexError of pop(0) on [] / RuntimeError) *)
| OClosed (t : N).                       (* transport closed, connection.protocol := None *)

Record st := mkst {
  clock : N;
  opened : bool;
  next : rid;                      (* id of the next caller *)
  inflight : list (rid * N);       (* result_cbs, oldest first: (request, time of the write); timer at write+T30 *)
  waiters : list rid               (* callers blocked in semaphore.acquire(), oldest first *)
}.

Definition init : st := mkst 0 true 0 [] [].

Section Disp.
Variable cap : nat.
Variable T30 : N.

(* connection_lost: every pending future gets AccessoryDisconnectedError, every caller
   woken from the semaphore afterwards finds protocol None *)
Definition flush_out (t : N) (fl : list (rid * N)) (ws : list rid) : list output :=
  map (fun p => ODone (fst p) Disconnected t) fl ++ map (fun w => ODone w Disconnected t) ws ++ [OClosed t].

Definition closed_st (s : st) (t : N) : st := mkst t false (next s) [] [].

(* the while loop of data_received over the messages one read completes:
   (resolved futures, remaining result_cbs, events delivered, raised?) *)
Fixpoint dispatch (ms : list msg) (fl : list (rid * N))
  : list (rid * N) * list (rid * N) * list N * bool :=
  match ms with
  | [] => ([], fl, [], false)
  | (KHttp, n) :: ms' =>
      match fl with
      | [] => ([], [], [], true)                         (* pop(0) on an empty list: IndexError *)
      | (r, _) :: fl' =>
          let '(res, rest, evs, c) := dispatch ms' fl' in ((r, n) :: res, rest, evs, c)
      end
  | (KEvent, n) :: ms' =>
      let '(res, rest, evs, c) := dispatch ms' fl in (res, rest, n :: evs, c)
  | (KOther, _) :: _ => ([], fl, [], true)               (* RuntimeError("Unknown http type") *)
  end.

Fixpoint remove_rid (r : rid) (l : list rid) : list rid :=
  match l with
  | [] => []
  | x :: l' => if Nat.eqb x r then l' else x :: remove_rid r l'
  end.

Fixpoint remove_fl (r : rid) (l : list (rid * N)) : list (rid * N) :=
  match l with
  | [] => []
  | x :: l' => if Nat.eqb (fst x) r then l' else x :: remove_fl r l'
  end.

Definition in_fl (r : rid) (l : list (rid * N)) : bool := existsb (fun p => Nat.eqb (fst p) r) l.
Definition in_ws (r : rid) (l : list rid) : bool := existsb (fun w => Nat.eqb w r) l.

Definition step (s : st) (e : event) : st * list output :=
  let t := clock s in
  match e with
  | Issue =>
      let r := next s in
      if negb (opened s) then
        (* request(): "if not self.protocol: raise AccessoryDisconnectedError" - nothing is written *)
        (mkst t false (S r) (inflight s) (waiters s), [ODone r Disconnected t])
      else if (length (inflight s) <? cap) && (match waiters s with [] => true | _ => false end) then
        (* semaphore not locked(): _send_lines appends the future, arms the timer, writes *)
        (mkst t true (S r) (inflight s ++ [(r, t)]) (waiters s), [OWrote r t])
      else
        (mkst t true (S r) (inflight s) (waiters s ++ [r]), [])
  | Data ms =>
      if negb (opened s) then (s, [])
      else
        let '(res, rest, evs, crashed) := dispatch ms (inflight s) in
        let o1 := map (fun n => OEvent n t) evs ++ map (fun p => ODone (fst p) (Resp (snd p)) t) res in
        if crashed then
          (* the transport's fatal-error path: force close, connection_lost *)
          (closed_st s t, o1 ++ [OCrash t] ++ flush_out t rest (waiters s))
        else
          (* every resolved caller releases the semaphore; the oldest waiters get it and write *)
          let room := cap - length rest in
          let adm := firstn room (waiters s) in
          (mkst t true (next s) (rest ++ map (fun w => (w, t)) adm) (skipn room (waiters s)),
           o1 ++ map (fun w => OWrote w t) adm)
  | Frag => (s, [])
  | Cancel r =>
      if in_fl r (inflight s) then
        (* CancelledError inside _send_lines: write_eof, close; connection_lost fails the others *)
        (closed_st s t, ODone r Cancelled t :: flush_out t (remove_fl r (inflight s)) (waiters s))
      else if in_ws r (waiters s) then
        (* cancelled while queued on the semaphore: nothing was written, the connection lives *)
        (mkst t (opened s) (next s) (inflight s) (remove_rid r (waiters s)), [ODone r Cancelled t])
      else (s, [])
  | Advance dt =>
      match inflight s with
      | (r, wt) :: rest =>
          if opened s && (wt + T30 <=? t + dt)%N then
            (* the oldest timer fires at wt+T30: _handle_timeout, then close; timers armed at the
               same instant fire in the same loop iteration *)
            let d := (wt + T30)%N in
            (closed_st s (t + dt),
             ODone r TimedOut d
               :: map (fun p => ODone (fst p) (if (snd p =? wt)%N then TimedOut else Disconnected) d) rest
               ++ map (fun w => ODone w Disconnected d) (waiters s) ++ [OClosed d])
          else (mkst (t + dt) (opened s) (next s) (inflight s) (waiters s), [])
      | [] => (mkst (t + dt) (opened s) (next s) (inflight s) (waiters s), [])
      end
  | PeerClose | PeerEof | LocalClose =>
      (* in all three cases connection_lost runs before quiescence: every future in result_cbs gets
         AccessoryDisconnectedError, every caller woken from the semaphore finds protocol None *)
      if opened s then (closed_st s t, flush_out t (inflight s) (waiters s)) else (s, [])
  end.

Fixpoint run (s : st) (es : list event) : st * list output :=
  match es with
  | [] => (s, [])
  | e :: es' =>
      let '(s1, o1) := step s e in
      let '(s2, o2) := run s1 es' in (s2, o1 ++ o2)
  end.

(* per-step outputs, for the correspondence driver *)
Fixpoint run_steps (s : st) (es : list event) : st * list (list output) :=
  match es with
  | [] => (s, [])
  | e :: es' =>
      let '(s1, o1) := step s e in
      let '(s2, o2) := run_steps s1 es' in (s2, o1 :: o2)
  end.

Definition final (es : list event) : st := fst (run init es).
Definition trace (es : list event) : list output := snd (run init es).

End Disp.

(* ---- projections of an output list / of a history (used by the theorems) ---- *)
Fixpoint writes (os : list output) : list rid :=
  match os with
  | [] => []
  | OWrote r _ :: os' => r :: writes os'
  | _ :: os' => writes os'
  end.

Fixpoint resps (os : list output) : list (rid * N) :=
  match os with
  | [] => []
  | ODone r (Resp n) _ :: os' => (r, n) :: resps os'
  | _ :: os' => resps os'
  end.

Fixpoint dones (os : list output) : list rid :=
  match os with
  | [] => []
  | ODone r _ _ :: os' => r :: dones os'
  | _ :: os' => dones os'
  end.

Fixpoint events_of (os : list output) : list N :=
  match os with
  | [] => []
  | OEvent n _ :: os' => n :: events_of os'
  | _ :: os' => events_of os'
  end.

(* everything except the event deliveries *)
Fixpoint non_events (os : list output) : list output :=
  match os with
  | [] => []
  | OEvent _ _ :: os' => non_events os'
  | o :: os' => o :: non_events os'
  end.

Fixpoint https_of_msgs (ms : list msg) : list N :=
  match ms with
  | [] => []
  | (KHttp, n) :: ms' => n :: https_of_msgs ms'
  | _ :: ms' => https_of_msgs ms'
  end.

Fixpoint evs_of_msgs (ms : list msg) : list N :=
  match ms with
  | [] => []
  | (KEvent, n) :: ms' => n :: evs_of_msgs ms'
  | _ :: ms' => evs_of_msgs ms'
  end.

(* all HTTP payloads / EVENT payloads the peer sent during a history, in stream order *)
Fixpoint https (es : list event) : list N :=
  match es with
  | [] => []
  | Data ms :: es' => https_of_msgs ms ++ https es'
  | _ :: es' => https es'
  end.

Fixpoint evs (es : list event) : list N :=
  match es with
  | [] => []
  | Data ms :: es' => evs_of_msgs ms ++ evs es'
  | _ :: es' => evs es'
  end.

(* the same history with every EVENT message erased *)
Definition strip_msgs (ms : list msg) : list msg :=
  filter (fun m => match fst m with KEvent => false | _ => true end) ms.

Definition strip_event (e : event) : event :=
  match e with Data ms => Data (strip_msgs ms) | _ => e end.
