(* C09 - model of the outbound HTTP request assembly of the IP transport.

   Anchors (aiohomekit, paths relative to the repository root):
     controller/ip/connection.py  HomeKitConnection.request / get / put / post /
                                  put_json / post_json / post_tlv, the Host header
                                  built in _connect_once
     controller/ip/pairing.py     get_characteristics (URL), put_characteristics,
                                  _update_subscriptions (payload shapes, one
                                  request per run of equal aids)
     hkjson.py                    dump_bytes = orjson.dumps (compact)

   Byte strings are [list N].  Python [str] values (method, target, host, JSON
   strings and keys) are represented by their UTF-8 encoding; the code's final
   [.encode("utf-8")] is therefore the identity here.  [str.upper] is modelled
   on ASCII letters only (the three methods the code uses are ASCII).

   JSON: null, booleans, integers, strings, arrays, objects with string keys in
   insertion order.  FLOATS ARE EXCLUDED (orjson's shortest-round-trip float
   printer is not modelled); so are non-string keys, lone surrogates (orjson
   raises) and integers outside [-2^63, 2^64) (orjson raises TypeError: modelled
   by [dump_bytes] returning [Err EncodeError], in which case nothing is sent).
   This file contains definitions only. *)
From Coq Require Import List NArith ZArith Arith Bool String Ascii Decimal.
From AHK Require Import Lib.Res Lib.ByteStr.
Import ListNotations.
Local Open Scope N_scope.

(* ------------------------------------------------------------------ literals *)
Definition lit (s : string) : bytes := map N_of_ascii (list_ascii_of_string s).

Definition CR : N := 13.
Definition LF : N := 10.
Definition SP : N := 32.
Definition CRLF : bytes := [CR; LF].

Fixpoint beq (a b : bytes) : bool :=
  match a, b with
  | [], [] => true
  | x :: a', y :: b' => N.eqb x y && beq a' b'
  | _, _ => false
  end.

(* "sep".join(l) *)
Fixpoint join (sep : bytes) (l : list bytes) : bytes :=
  match l with
  | [] => []
  | x :: r => match r with [] => x | _ => x ++ sep ++ join sep r end
  end.

(* ------------------------------------------------------------------ decimals *)
Fixpoint uint_bytes (u : uint) : bytes :=
  match u with
  | Nil => []
  | D0 r => 48 :: uint_bytes r | D1 r => 49 :: uint_bytes r | D2 r => 50 :: uint_bytes r
  | D3 r => 51 :: uint_bytes r | D4 r => 52 :: uint_bytes r | D5 r => 53 :: uint_bytes r
  | D6 r => 54 :: uint_bytes r | D7 r => 55 :: uint_bytes r | D8 r => 56 :: uint_bytes r
  | D9 r => 57 :: uint_bytes r
  end.

(* str(n) for a natural number *)
Definition ndec (n : N) : bytes := uint_bytes (N.to_uint n).
(* str(z) for a Python int *)
Definition zdec (z : Z) : bytes :=
  match z with
  | Zneg p => 45 :: ndec (Npos p)
  | _ => ndec (Z.to_N z)
  end.

(* ------------------------------------------------------------------ request() *)
Definition upper_b (c : N) : N := if (97 <=? c) && (c <=? 122) then c - 32 else c.
Definition upper (s : bytes) : bytes := map upper_b s.

(* _connect_once: [":" in connected_host] selects the bracketed form; no port *)
Definition host_header (h : bytes) : bytes :=
  if mem_N 58 h then lit "Host: [" ++ h ++ lit "]" else lit "Host: " ++ h.

Definition hdr_line (h : bytes * bytes) : bytes := fst h ++ lit ": " ++ snd h.

(* HomeKitConnection.request: buffer = [request line, host header] + header
   lines + ["", ""], joined with CRLF, body appended; ONE send_bytes call with
   the result (the single-call part is checked by the harness on the transport) *)
Definition render (method target : bytes) (headers : list (bytes * bytes)) (body host : bytes) : bytes :=
  join CRLF ([upper method ++ [SP] ++ target ++ lit " HTTP/1.1"; host_header host]
             ++ map hdr_line headers ++ [[]; []])
  ++ body.

Inductive ctype := CtJson | CtTlv.
Definition ct_value (c : ctype) : bytes :=
  match c with CtJson => lit "application/hap+json" | CtTlv => lit "application/pairing+tlv8" end.

(* put()/post(): exactly these two headers, in this order *)
Definition body_headers (ct : ctype) (body : bytes) : list (bytes * bytes) :=
  [(lit "Content-Length", ndec (N.of_nat (List.length body))); (lit "Content-Type", ct_value ct)].

Definition conn_get (host target : bytes) : bytes := render (lit "GET") target [] [] host.
Definition conn_put (host target body : bytes) (ct : ctype) : bytes :=
  render (lit "PUT") target (body_headers ct body) body host.
Definition conn_post (host target body : bytes) (ct : ctype) : bytes :=
  render (lit "POST") target (body_headers ct body) body host.

(* the abstract request *)
Inductive meth := GET | PUT | POST.
Definition meth_name (m : meth) : bytes :=
  match m with GET => lit "GET" | PUT => lit "PUT" | POST => lit "POST" end.

Record req := mkReq { r_meth : meth; r_target : bytes; r_host : bytes; r_body : option (ctype * bytes) }.

Definition render_req (r : req) : bytes :=
  match r_body r with
  | None => render (meth_name (r_meth r)) (r_target r) [] [] (r_host r)
  | Some (ct, b) => render (meth_name (r_meth r)) (r_target r) (body_headers ct b) b (r_host r)
  end.

(* ------------------------------------------------------------------ JSON *)
Inductive json :=
| JNull
| JBool (b : bool)
| JInt (z : Z)
| JStr (s : bytes)
| JArr (l : list json)
| JObj (l : list (bytes * json)).

Definition hexd (n : N) : N := if n <? 10 then 48 + n else 87 + n.

(* orjson string escaping, byte-wise on the UTF-8 form (every byte of a
   multi-byte sequence is >= 128 and is copied) *)
Definition esc_byte (c : N) : bytes :=
  if c =? 34 then [92; 34]
  else if c =? 92 then [92; 92]
  else if c =? 8 then [92; 98]
  else if c =? 9 then [92; 116]
  else if c =? 10 then [92; 110]
  else if c =? 12 then [92; 102]
  else if c =? 13 then [92; 114]
  else if c <? 32 then [92; 117; 48; 48; hexd (c / 16); hexd (c mod 16)]
  else [c].

Definition jstr (s : bytes) : bytes := 34 :: flat_map esc_byte s ++ [34].

Definition comma : bytes := [44].

Fixpoint jprint (v : json) : bytes :=
  match v with
  | JNull => lit "null"
  | JBool true => lit "true"
  | JBool false => lit "false"
  | JInt z => zdec z
  | JStr s => jstr s
  | JArr l => 91 :: join comma (map jprint l) ++ [93]
  | JObj l => 123 :: join comma (map (fun kv => match kv with (k, x) => jstr k ++ 58 :: jprint x end) l) ++ [125]
  end.

(* orjson's integer domain *)
Fixpoint json_ok (v : json) : bool :=
  match v with
  | JInt z => (Z.leb (-9223372036854775808) z && Z.ltb z 18446744073709551616)%Z
  | JArr l => forallb json_ok l
  | JObj l => forallb (fun kv => match kv with (_, x) => json_ok x end) l
  | _ => true
  end.

Inductive enc_err := EncodeError.
Definition dump_bytes (v : json) : res enc_err bytes :=
  if json_ok v then Ok (jprint v) else Err EncodeError.

(* the in-string tracker used by the whitespace theorem *)
Inductive sst := Out | InS | InEsc.
Definition is_ws (c : N) : bool := (c =? 32) || (c =? 9) || (c =? 13) || (c =? 10).
Definition sstep (s : sst) (c : N) : option sst :=
  match s with
  | Out => if is_ws c then None else if c =? 34 then Some InS else Some Out
  | InS => if c =? 92 then Some InEsc else if c =? 34 then Some Out else Some InS
  | InEsc => Some InS
  end.
(* [scan s bs = Some s']: no space/tab/CR/LF was met outside a string literal *)
Fixpoint scan (s : sst) (bs : bytes) : option sst :=
  match bs with
  | [] => Some s
  | c :: r => match sstep s c with None => None | Some s' => scan s' r end
  end.

(* ------------------------------------------------------------------ pairing.py shapes *)
Definition id_str (p : Z * Z) : bytes := zdec (fst p) ++ [46] ++ zdec (snd p).
(* "/characteristics?id=" + ",".join(f"{aid}.{iid}" ...) ; the order is the
   iteration order of the implementation's set *)
Definition read_url (ids : list (Z * Z)) : bytes :=
  lit "/characteristics?id=" ++ join comma (map id_str ids).

Definition chars_obj (items : list json) : json := JObj [(lit "characteristics", JArr items)].
Definition write_item (c : Z * Z * json) : json :=
  match c with (a, i, v) => JObj [(lit "aid", JInt a); (lit "iid", JInt i); (lit "value", v)] end.
Definition write_payload (cs : list (Z * Z * json)) : json := chars_obj (map write_item cs).
Definition sub_item (ev : bool) (p : Z * Z) : json :=
  JObj [(lit "aid", JInt (fst p)); (lit "iid", JInt (snd p)); (lit "ev", JBool ev)].
Definition sub_payload (ev : bool) (ids : list (Z * Z)) : json := chars_obj (map (sub_item ev) ids).

(* itertools.groupby(characteristics, key=itemgetter(0)): maximal runs of equal aid *)
Fixpoint group_aid (ids : list (Z * Z)) : list (list (Z * Z)) :=
  match ids with
  | [] => []
  | p :: r =>
      match group_aid r with
      | (q :: g) :: gs => if Z.eqb (fst p) (fst q) then (p :: q :: g) :: gs else [p] :: (q :: g) :: gs
      | gs => [p] :: gs
      end
  end.

Definition chars_target : bytes := lit "/characteristics".

Definition req_get (host target : bytes) : req := mkReq GET target host None.
Definition req_put_json (host target : bytes) (v : json) : req := mkReq PUT target host (Some (CtJson, jprint v)).
Definition req_post_json (host target : bytes) (v : json) : req := mkReq POST target host (Some (CtJson, jprint v)).
Definition req_post_tlv (host target tlv : bytes) : req := mkReq POST target host (Some (CtTlv, tlv)).

Definition api_get_characteristics (host : bytes) (ids : list (Z * Z)) : req := req_get host (read_url ids).
Definition api_put_characteristics (host : bytes) (cs : list (Z * Z * json)) : req :=
  req_put_json host chars_target (write_payload cs).
Definition api_update_subscriptions (host : bytes) (ev : bool) (ids : list (Z * Z)) : list req :=
  map (fun g => req_put_json host chars_target (sub_payload ev g)) (group_aid ids).

(* ------------------------------------------------------------------ strict grammar *)
(* The reference parser: accepts exactly the canonical form.
     request  = METHOD SP target SP "HTTP/1.1" CRLF
                "Host: " host CRLF
                [ "Content-Length: " canonical-decimal CRLF
                  "Content-Type: " ("application/hap+json" | "application/pairing+tlv8") CRLF ]
                CRLF body
   GET has no header block and no body; PUT/POST have the header block and the
   body has exactly Content-Length bytes.  host = "[" v6 "]" (v6 contains ":")
   or a colon-free name; no port. *)
Fixpoint span (p : N -> bool) (l : bytes) : bytes * bytes :=
  match l with
  | [] => ([], [])
  | c :: r => if p c then (let (a, b) := span p r in (c :: a, b)) else ([], l)
  end.

Fixpoint strip_prefix (p l : bytes) : option bytes :=
  match p with
  | [] => Some l
  | x :: p' => match l with
               | y :: l' => if N.eqb x y then strip_prefix p' l' else None
               | [] => None
               end
  end.

(* one line: everything up to the first CR, which must be followed by LF; a bare
   LF or a CR without LF is rejected *)
Fixpoint take_line (bs : bytes) : option (bytes * bytes) :=
  match bs with
  | [] => None
  | c :: r =>
      if c =? 13 then
        match r with
        | d :: r' => if d =? 10 then Some ([], r') else None
        | [] => None
        end
      else if c =? 10 then None
      else match take_line r with
           | Some (l, rest) => Some (c :: l, rest)
           | None => None
           end
  end.

Fixpoint bytes_uint (l : bytes) : option uint :=
  match l with
  | [] => Some Nil
  | c :: r =>
      match bytes_uint r with
      | None => None
      | Some u =>
          if c =? 48 then Some (D0 u) else if c =? 49 then Some (D1 u) else if c =? 50 then Some (D2 u)
          else if c =? 51 then Some (D3 u) else if c =? 52 then Some (D4 u) else if c =? 53 then Some (D5 u)
          else if c =? 54 then Some (D6 u) else if c =? 55 then Some (D7 u) else if c =? 56 then Some (D8 u)
          else if c =? 57 then Some (D9 u) else None
      end
  end.

(* canonical decimal: digits only, no leading zero, not empty *)
Definition parse_dec (ds : bytes) : option N :=
  match bytes_uint ds with
  | None => None
  | Some u => let n := N.of_uint u in if beq (ndec n) ds then Some n else None
  end.

Definition not_sp (c : N) : bool := negb (c =? 32).

Definition parse_meth (w : bytes) : option meth :=
  if beq w (lit "GET") then Some GET
  else if beq w (lit "PUT") then Some PUT
  else if beq w (lit "POST") then Some POST
  else None.

Definition parse_reqline (l : bytes) : option (meth * bytes) :=
  let (w, r1) := span not_sp l in
  match parse_meth w with
  | None => None
  | Some m =>
      match r1 with
      | [] => None
      | _ :: r2 =>                       (* the SP that stopped the span *)
          let (t, r3) := span not_sp r2 in
          if negb (nil_b t) && beq r3 (lit " HTTP/1.1") then Some (m, t) else None
      end
  end.

Definition host_char (c : N) : bool :=
  negb ((c =? 13) || (c =? 10) || (c =? 32) || (c =? 91) || (c =? 93)).
Definition wf_host (h : bytes) : bool := negb (nil_b h) && forallb host_char h.

Definition parse_hostline (l : bytes) : option bytes :=
  match strip_prefix (lit "Host: ") l with
  | None => None
  | Some hv =>
      match hv with
      | [] => None
      | c :: m =>
          if c =? 91 then
            match List.rev m with
            | d :: ri => let h := List.rev ri in
                         if (d =? 93) && wf_host h && mem_N 58 h then Some h else None
            | [] => None
            end
          else if wf_host hv && negb (mem_N 58 hv) then Some hv else None
      end
  end.

Definition parse_ct (v : bytes) : option ctype :=
  if beq v (ct_value CtJson) then Some CtJson
  else if beq v (ct_value CtTlv) then Some CtTlv
  else None.

Definition is_get (m : meth) : bool := match m with GET => true | _ => false end.

Definition obind {A B} (o : option A) (f : A -> option B) : option B :=
  match o with Some a => f a | None => None end.

Definition parse_req (bs : bytes) : option req :=
  obind (take_line bs) (fun '(l1, r1) =>
  obind (parse_reqline l1) (fun '(m, t) =>
  obind (take_line r1) (fun '(l2, r2) =>
  obind (parse_hostline l2) (fun h =>
  obind (take_line r2) (fun '(l3, r3) =>
    if nil_b l3 then
      if nil_b r3 && is_get m then Some (mkReq m t h None) else None
    else
      obind (strip_prefix (lit "Content-Length: ") l3) (fun ds =>
      obind (parse_dec ds) (fun n =>
      obind (take_line r3) (fun '(l4, r4) =>
      obind (strip_prefix (lit "Content-Type: ") l4) (fun cv =>
      obind (parse_ct cv) (fun ct =>
      obind (take_line r4) (fun '(l5, body) =>
        if nil_b l5 && (N.of_nat (List.length body) =? n) && negb (is_get m)
        then Some (mkReq m t h (Some (ct, body))) else None))))))))))).

(* domain of the round trip: a target without SP/CR/LF, a host without
   CR/LF/SP/brackets, GET without body, PUT/POST with one *)
Definition target_char (c : N) : bool := negb ((c =? 13) || (c =? 10) || (c =? 32)).
Definition wf_req (r : req) : bool :=
  negb (nil_b (r_target r)) && forallb target_char (r_target r)
  && wf_host (r_host r)
  && match r_body r with None => is_get (r_meth r) | Some _ => negb (is_get (r_meth r)) end.

(* strict parser of the read URL *)
Definition is_digit (c : N) : bool := (48 <=? c) && (c <=? 57).
Definition read_int (bs : bytes) : option (Z * bytes) :=
  match bs with
  | c :: r =>
      if c =? 45 then
        let (ds, rest) := span is_digit r in
        match parse_dec ds with
        | Some (Npos p) => Some (Zneg p, rest)
        | _ => None
        end
      else
        let (ds, rest) := span is_digit bs in
        match parse_dec ds with
        | Some n => Some (Z.of_N n, rest)
        | None => None
        end
  | [] => None
  end.

Definition read_id (bs : bytes) : option ((Z * Z) * bytes) :=
  obind (read_int bs) (fun '(a, r1) =>
  match r1 with
  | c :: r2 => if c =? 46 then obind (read_int r2) (fun '(i, r3) => Some ((a, i), r3)) else None
  | [] => None
  end).

Fixpoint read_ids (fuel : nat) (bs : bytes) : option (list (Z * Z)) :=
  match fuel with
  | O => None
  | S f =>
      obind (read_id bs) (fun '(p, r) =>
      match r with
      | [] => Some [p]
      | c :: r' => if c =? 44 then obind (read_ids f r') (fun l => Some (p :: l)) else None
      end)
  end.

Definition parse_read_url (bs : bytes) : option (list (Z * Z)) :=
  obind (strip_prefix (lit "/characteristics?id=") bs) (fun r =>
  match r with
  | [] => Some []
  | _ => read_ids (S (List.length r)) r
  end).
