(* C13 - executable model of the per-characteristic result mapping of reads and writes.

   Anchors (aiohomekit):
     controller/ip/pairing.py    format_characteristic_list, IpPairing.get_characteristics,
                                 IpPairing.put_characteristics (response statuses + listener update)
     protocol/statuscodes.py     HapStatusCode, to_status_code
     controller/coap/connection.py  _read_characteristics_exit, _write_characteristics_exit
     controller/coap/pairing.py     CoAPPairing.put_characteristics (listener update)
     controller/ble/pairing.py      BlePairing.put_characteristics (write loop)

   Abstraction: a JSON reply is an optional global status plus a list of entries
   [Malformed | Entry aid iid status? value?]; [Malformed] stands for every shape the code
   skips (non-dict, dict without "aid", dict without "iid").  Python dicts are association
   lists with unique keys ([dset] replaces); key order is not observable (the harness sorts).
   Descriptions are abstracted to the enum member they belong to ([DCode c]) or to the
   "Unknown error code: <status as sent>" text ([DUnknownWith s]).  Definitions only. *)
From Coq Require Import List NArith ZArith Bool.
From AHK Require Import Lib.Res.
Import ListNotations.

(* ------------------------------------------------------------------ ids and dicts *)
Definition cid := (N * N)%type.                       (* (aid, iid) *)
Definition cid_eqb (a b : cid) : bool := (fst a =? fst b)%N && (snd a =? snd b)%N.

Definition dict (A : Type) := list (cid * A).
Fixpoint lookup {A} (k : cid) (m : dict A) : option A :=
  match m with
  | [] => None
  | (k', v) :: t => if cid_eqb k k' then Some v else lookup k t
  end.
Definition dremove {A} (k : cid) (m : dict A) : dict A :=
  filter (fun p => negb (cid_eqb k (fst p))) m.
Definition dset {A} (k : cid) (v : A) (m : dict A) : dict A := (k, v) :: dremove k m.
Definition dmem {A} (k : cid) (m : dict A) : bool :=
  match lookup k m with Some _ => true | None => false end.

(* ------------------------------------------------------------------ HapStatusCode / to_status_code *)
(* the values HapStatusCode defines; -1 is the UNKNOWN member *)
Definition hap_defined : list Z :=
  [0; -70401; -70402; -70403; -70404; -70405; -70406; -70407; -70408; -70409; -70410; -70411; -70412; -1]%Z.
Definition hap_unknown : Z := (-1)%Z.
Definition hap_success : Z := 0%Z.
Definition hap_read_only : Z := (-70404)%Z.

(* normalized = abs(status) * -1; HapStatusCode(normalized) or UNKNOWN *)
Definition to_status_code (s : Z) : Z :=
  let n := Z.opp (Z.abs s) in
  if existsb (Z.eqb n) hap_defined then n else hap_unknown.

Inductive descr :=
| DCode (c : Z)            (* HapStatusCode(c).description *)
| DUnknownWith (s : Z)     (* "Unknown error code: <s>", s as sent *)
| DPdu (n : N).            (* PDUStatus(n).description (CoAP) *)

(* description chosen by format_characteristic_list *)
Definition read_descr (s : Z) : descr :=
  if Z.eqb (to_status_code s) hap_unknown then DUnknownWith s else DCode (to_status_code s).

(* ------------------------------------------------------------------ replies *)
Inductive entry :=
| Malformed
| Entry (aid iid : N) (st : option Z) (val : option Z).

(* one value of the result dict of a read: the keys "status", "description", "value" *)
Record rres := mk_rres { rr_status : option Z; rr_descr : option descr; rr_value : option Z }.

(* what a well-formed entry turns into: status 0 is deleted, a non-zero status gets a description *)
Definition render (st : option Z) (val : option Z) : rres :=
  match st with
  | None => mk_rres None None val
  | Some s => if Z.eqb s 0 then mk_rres None None val
              else mk_rres (Some s) (Some (read_descr s)) val
  end.
Definition glob_res (s : Z) : rres := mk_rres (Some s) (Some (read_descr s)) None.

Definition fcl_step (m : dict rres) (e : entry) : dict rres :=
  match e with
  | Malformed => m
  | Entry a i st v => dset (a, i) (render st v) m
  end.

(* format_characteristic_list(data, requested): g = data.get("status"), es = data.get("characteristics", []) *)
Definition format_characteristic_list (g : option Z) (es : list entry) (req : list cid) : dict rres :=
  let tmp0 :=
    match g with
    | Some s => if Z.eqb s 0 then []
                else fold_left (fun m k => dset k (glob_res s) m) req []
    | None => []
    end in
  fold_left fcl_step es tmp0.

(* IpPairing.get_characteristics = format_characteristic_list(get_json(...), set(characteristics)) *)
Definition ip_get (req : list cid) (g : option Z) (es : list entry) : dict rres :=
  format_characteristic_list g es req.

(* ------------------------------------------------------------------ IP put_characteristics *)
Inductive wreply :=
| W204                      (* 204 No Content / empty body dict: `if response:` is false *)
| WNoList                   (* a non-empty dict without "characteristics": KeyError *)
| W207 (es : list entry).

Definition wres := (Z * descr)%type.          (* {"status": as sent, "description": ...} *)
Inductive cerr := PduStatusError (n : N).

Definition listener_init (readable : cid -> bool) (reqs : list (cid * Z)) : dict Z :=
  fold_left (fun m q => if readable (fst q) then dset (fst q) (snd q) m else m) reqs [].

(* [rej s]: does status s remove the characteristic from the listener update *)
Fixpoint ip_put_loop (rej : Z -> bool) (es : list entry) (rs : dict wres) (lu : dict Z)
  : res cerr (dict wres * dict Z) :=
  match es with
  | [] => Ok (rs, lu)
  | Malformed :: t => ip_put_loop rej t rs lu
  | Entry a i None _ :: t => Crash                                  (* characteristic["status"]: KeyError *)
  | Entry a i (Some s) _ :: t =>
      ip_put_loop rej t (dset (a, i) (s, DCode (to_status_code s)) rs)
                  (if rej s then dremove (a, i) lu else lu)
  end.

Definition ip_put_gen (rej : Z -> bool) (readable : cid -> bool) (reqs : list (cid * Z)) (r : wreply)
  : res cerr (dict wres * dict Z) :=
  match r with
  | W204 => Ok ([], listener_init readable reqs)
  | WNoList => Crash
  | W207 es => ip_put_loop rej es [] (listener_init readable reqs)
  end.

(* repaired code: `if to_status_code(status) != HapStatusCode.SUCCESS: listener_update.pop(key)` *)
Definition rej_fixed (s : Z) : bool := negb (Z.eqb (to_status_code s) hap_success).
Definition ip_put := ip_put_gen rej_fixed.
(* code before fixes/C13-ip-put-listener-status-compare.patch: a str is compared with the
   enum member, which is never equal, so every listed characteristic is popped *)
Definition rej_unrepaired (s : Z) : bool := true.
Definition ip_put_unrepaired := ip_put_gen rej_unrepaired.

(* ------------------------------------------------------------------ CoAP *)
Inductive pdures :=
| PBytes (v : Z)            (* a body; v = the decoded value *)
| PStatus (n : N).          (* a PDUStatus member with value n *)

(* _read_characteristics_exit(ids, pdu_results): positional; ids[idx] raises IndexError when
   there are more results than ids *)
Fixpoint coap_read_loop (ids : list cid) (rs : list pdures) (out : dict rres) {struct rs} : res cerr (dict rres) :=
  match rs with
  | [] => Ok out
  | r :: rt =>
      match ids with
      | [] => Crash
      | k :: kt =>
          coap_read_loop kt rt
            (dset k (match r with
                     | PStatus n => mk_rres (Some (Z.opp (Z.of_N n))) (Some (DPdu n)) None
                     | PBytes v => mk_rres None None (Some v)
                     end) out)
      end
  end.
Definition coap_read (ids : list cid) (rs : list pdures) := coap_read_loop ids rs [].

(* _write_characteristics_exit: only PDUStatus results are reported *)
Fixpoint coap_write_loop (ids : list cid) (rs : list pdures) (out : dict wres) {struct rs} : res cerr (dict wres) :=
  match rs with
  | [] => Ok out
  | r :: rt =>
      match ids with
      | [] => Crash
      | k :: kt =>
          coap_write_loop kt rt
            (match r with
             | PStatus n => dset k (Z.opp (Z.of_N n), DPdu n) out
             | PBytes _ => out
             end)
      end
  end.

(* CoAPPairing.put_characteristics: notify (last value wins) every request whose key is not in
   the response and which is readable *)
Definition coap_put (readable : cid -> bool) (reqs : list (cid * Z)) (rs : list pdures)
  : res cerr (dict wres * dict Z) :=
  match coap_write_loop (map fst reqs) rs [] with
  | Ok out =>
      Ok (out, fold_left (fun m q => if negb (dmem (fst q) out) && readable (fst q)
                                     then dset (fst q) (snd q) m else m) reqs [])
  | Err e => Err e
  | Crash => Crash
  | OutOfFuel => OutOfFuel
  end.

(* ------------------------------------------------------------------ BLE put_characteristics *)
Inductive bperm := BTimed | BWrite | BReadOnly.
(* one request item with the accessory's scripted PDU statuses for the (up to) two requests it
   causes: s1 = CHAR_WRITE or CHAR_TIMED_WRITE, s2 = CHAR_EXEC_WRITE *)
Record bitem := mk_bitem { b_key : cid; b_val : Z; b_s1 : N; b_s2 : N }.

(* returns the listener calls made (in order; they happen during the loop, so also when the
   call finally raises) and the call's outcome.  perms are looked up by iid only (aid is
   always BLE_AID in the accessory database) *)
Fixpoint ble_loop (perm : N -> bperm) (readable : N -> bool) (items : list bitem)
         (rs : dict wres) (ns : list (cid * Z)) : list (cid * Z) * res cerr (dict wres) :=
  match items with
  | [] => (ns, Ok rs)
  | it :: t =>
      let iid := snd (b_key it) in
      let ok := ble_loop perm readable t rs
                  (if readable iid then ns ++ [(b_key it, b_val it)] else ns) in
      match perm iid with
      | BTimed =>
          if (b_s1 it =? 0)%N then
            if (b_s2 it =? 0)%N then ok else (ns, Err (PduStatusError (b_s2 it)))
          else (ns, Err (PduStatusError (b_s1 it)))
      | BWrite =>
          if (b_s1 it =? 0)%N then ok else (ns, Err (PduStatusError (b_s1 it)))
      | BReadOnly =>
          ble_loop perm readable t (dset (b_key it) (hap_read_only, DCode hap_read_only) rs) ns
      end
  end.
Definition ble_put perm readable items := ble_loop perm readable items [] [].

(* ================================================================== specification vocabulary
   (used by the theorem statements; independent of the folds above) *)

(* the last well-formed entry of the reply for k *)
Fixpoint last_entry (es : list entry) (k : cid) : option (option Z * option Z) :=
  match es with
  | [] => None
  | e :: t =>
      match last_entry t k with
      | Some x => Some x
      | None => match e with
                | Entry a i st v => if cid_eqb k (a, i) then Some (st, v) else None
                | Malformed => None
                end
      end
  end.

Definition wellformed (e : entry) : bool := match e with Malformed => false | _ => true end.

(* the reply rejects k: some well-formed entry for k carries a non-zero status *)
Definition rejects (es : list entry) (k : cid) : Prop :=
  exists a i s v, In (Entry a i (Some s) v) es /\ (a, i) = k /\ s <> 0%Z.
Definition rejectsb (es : list entry) (k : cid) : bool :=
  existsb (fun e => match e with
                    | Entry a i (Some s) _ => cid_eqb k (a, i) && negb (Z.eqb s 0)
                    | _ => false end) es.

(* every well-formed entry of a write reply has a status (HAP: a 207 body lists statuses) *)
Definition has_status (e : entry) : bool :=
  match e with Entry _ _ None _ => false | _ => true end.

(* the value of the last request item for k *)
Fixpoint last_req (reqs : list (cid * Z)) (k : cid) : option Z :=
  match reqs with
  | [] => None
  | q :: t => match last_req t k with
              | Some v => Some v
              | None => if cid_eqb k (fst q) then Some (snd q) else None
              end
  end.

(* positional pairing of CoAP ids and results: the last result paired with k *)
Fixpoint last_paired {A} (ids : list cid) (rs : list A) (k : cid) : option A :=
  match ids, rs with
  | i :: it, r :: rt =>
      match last_paired it rt k with
      | Some x => Some x
      | None => if cid_eqb k i then Some r else None
      end
  | _, _ => None
  end.
Definition is_pstatus (r : pdures) : bool := match r with PStatus _ => true | _ => false end.
(* some result paired with k is a PDUStatus *)
Fixpoint any_paired_status (ids : list cid) (rs : list pdures) (k : cid) : bool :=
  match ids, rs with
  | i :: it, r :: rt => (cid_eqb k i && is_pstatus r) || any_paired_status it rt k
  | _, _ => false
  end.

(* BLE: the accessory's verdict on one attempted item *)
Definition ble_sent (perm : N -> bperm) (it : bitem) : bool :=
  match perm (snd (b_key it)) with BReadOnly => false | _ => true end.
Definition ble_reject_status (perm : N -> bperm) (it : bitem) : option N :=
  match perm (snd (b_key it)) with
  | BTimed => if (b_s1 it =? 0)%N then (if (b_s2 it =? 0)%N then None else Some (b_s2 it)) else Some (b_s1 it)
  | BWrite => if (b_s1 it =? 0)%N then None else Some (b_s1 it)
  | BReadOnly => None
  end.
(* items processed before the first rejected one *)
Fixpoint ble_prefix (perm : N -> bperm) (items : list bitem) : list bitem :=
  match items with
  | [] => []
  | it :: t => match ble_reject_status perm it with
               | Some _ => []
               | None => it :: ble_prefix perm t
               end
  end.
Fixpoint ble_first_reject (perm : N -> bperm) (items : list bitem) : option N :=
  match items with
  | [] => None
  | it :: t => match ble_reject_status perm it with
               | Some s => Some s
               | None => ble_first_reject perm t
               end
  end.
Definition ble_notified (perm : N -> bperm) (readable : N -> bool) (items : list bitem) : list (cid * Z) :=
  map (fun it => (b_key it, b_val it))
      (filter (fun it => ble_sent perm it && readable (snd (b_key it))) items).
