(* C19 - several controllers alive in ONE process (the aggregate Controller owns an IpController, a
   CoAPController and a BleController; an application may run several of the same class), and what
   controller.discoveries must show after a history of advertisements.

   A world is a list of controllers, each with its OWN configuration, state and output log.  An event is
   addressed to one controller ([At j e]: a caller starts/cancels a lookup on controller j, controller j's
   callback processes an advertisement, a pairing is loaded into controller j) or is the shared clock /
   the loop running until idle ([Tick delta], seen by every controller as [Advance delta]).
   Nothing else is shared: no waiter table, no discovery table. *)
From Coq Require Import List NArith ZArith Arith Bool.
From AHK Require Import Lib.Res Lib.ByteStr Model.Find.
Import ListNotations.
Open Scope N_scope.

Inductive wevent :=
| At (j : nat) (e : event)
| Tick (delta : N).

Notation wctl := (cfg * st * list out)%type (only parsing).
Notation wstate := (list (cfg * st * list out)) (only parsing).

(* the event controller i sees *)
Definition ev_for (i : nat) (e : wevent) : option event :=
  match e with
  | At j ev => if Nat.eqb i j then Some ev else None
  | Tick d => Some (Advance d)
  end.

Definition wstep1 (i : nat) (e : wevent) (x : wctl) : wctl :=
  match ev_for i e with
  | Some ev => (fst (fst x), fst (step (fst (fst x)) (snd (fst x)) ev),
                snd x ++ snd (step (fst (fst x)) (snd (fst x)) ev))
  | None => x
  end.

Fixpoint wmap (i : nat) (e : wevent) (w : wstate) : wstate :=
  match w with
  | [] => []
  | x :: r => wstep1 i e x :: wmap (S i) e r
  end.

Definition wstep (w : wstate) (e : wevent) : wstate := wmap 0 e w.

Fixpoint wrun (w : wstate) (evs : list wevent) : wstate :=
  match evs with
  | [] => w
  | e :: r => wrun (wstep w e) r
  end.

(* the history of controller j alone *)
Fixpoint proj (j : nat) (evs : list wevent) : list event :=
  match evs with
  | [] => []
  | e :: r => match ev_for j e with Some ev => ev :: proj j r | None => proj j r end
  end.

(* the world the aggregate Controller builds: IP and CoAP (both ZeroconfController) and BLE *)
Definition world0 : wstate := [(mdns_cfg, st0, []); (mdns_cfg, st0, []); (ble_cfg, st0, [])].

(* ---- controller.discoveries after a history: the LATEST valid advertisement of each id, whatever its
   configuration / state numbers are compared with the earlier ones (they wrap and restart) *)
Fixpoint last_adv (key : id) (evs : list event) (acc : option descr) : option descr :=
  match evs with
  | [] => acc
  | Adv (Some d) :: r => last_adv key r (if beq (d_id d) key then Some d else acc)
  | _ :: r => last_adv key r acc
  end.
