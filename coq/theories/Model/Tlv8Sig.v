(* C16 extension: the secondary codec on top of the decoded characteristic
   signature structs - aiohomekit/controller/ble/structs.py::Characteristic and
   aiohomekit/controller/coap/structs.py::Pdu09Characteristic:
     permission bits -> perms, GATT presentation format -> format / unit names,
     _unpack_value / _pack_value (raw characteristic value by format code),
     min_step, min_max_value, value, and the dictionary to_dict() assembles.
   Definitions only; proofs in Proofs/Tlv8Sig.v.  Floats are never interpreted:
   a float travels as its four raw bytes. *)
From Coq Require Import List NArith ZArith Arith Bool.
From AHK Require Import Lib.Res Lib.ByteStr Model.Tlv8.
Import ListNotations.

Inductive variant := Ble | Coap.
Inductive perm := PR | PW | EV | AA | TW | HD.
Inductive fname := FBool | FUint8 | FUint16 | FUint32 | FUint64 | FInt | FFloat | FString | FData.
Inductive uname := UCelsius | UArcdegrees | UPercentage | ULux | USeconds.

(* a decoded raw value *)
Inductive sval :=
| SInt (z : Z)
| SBool (b : bool)
| SText (b : bytes)        (* str, as its utf-8 bytes *)
| SHex (b : bytes)         (* format 0x1B: value.hex() *)
| SRaw (b : bytes)         (* unknown / no format: the bytes themselves *)
| SFloat (b : bytes)       (* format 0x14: the four bytes of the float32 *)
| SNone.                   (* Python None *)

(* the fields of the decoded struct the secondary codec reads *)
Record sigin := { s_type : N; s_iid : option N; s_props : N;
                  s_pf : option bytes; s_range : option bytes; s_step : option bytes; s_raw : option bytes }.

Record sigout := { o_type : N; o_iid : option N; o_perms : list perm; o_bcast : bool; o_disc : bool;
                   o_format : option fname; o_unit : option uname;
                   o_value : option sval;                 (* None: key absent *)
                   o_minstep : option sval; o_minmax : option (sval * sval) }.

(* ---- permission bits (HAP-BLE characteristic properties descriptor) ---- *)
Definition perm_bit (p : perm) : N :=
  match p with PR => 4 | PW => 5 | EV => 7 | AA => 2 | TW => 3 | HD => 6 end.
(* the order to_dict() appends them *)
Definition perm_order : list perm := [PR; PW; EV; AA; TW; HD].
Definition perms_of (props : N) : list perm := filter (fun p => N.testbit props (perm_bit p)) perm_order.

(* ---- struct.unpack("<BxHxxx", presentation_format): exactly 7 bytes ---- *)
Definition pf_parse (pf : option bytes) : R (option (N * N)) :=
  match pf with
  | None => Ok None
  | Some [b0; _; b2; b3; _; _; _] => Ok (Some (b0, (b2 + 256 * b3)%N))
  | Some _ => Err ERange                                  (* struct.error *)
  end.

Definition format_name (v : variant) (f : option N) : option fname :=
  match f with
  | None => None
  | Some c =>
      if N.eqb c 1 then Some FBool
      else if N.eqb c 4 then Some (match v with Ble => FUint8 | Coap => FInt end)
      else if N.eqb c 6 then Some (match v with Ble => FUint16 | Coap => FInt end)
      else if N.eqb c 8 then Some (match v with Ble => FUint32 | Coap => FInt end)
      else if N.eqb c 10 then Some (match v with Ble => FUint64 | Coap => FInt end)
      else if N.eqb c 16 then Some FInt
      else if N.eqb c 20 then Some FFloat
      else if N.eqb c 25 then Some FString
      else if N.eqb c 27 then Some FData
      else None
  end.

Definition unit_name (u : option N) : option uname :=
  match u with
  | None => None
  | Some c =>
      if N.eqb c 10031 then Some UCelsius          (* 0x272F *)
      else if N.eqb c 10083 then Some UArcdegrees  (* 0x2763 *)
      else if N.eqb c 10157 then Some UPercentage  (* 0x27AD *)
      else if N.eqb c 10033 then Some ULux         (* 0x2731 *)
      else if N.eqb c 9987 then Some USeconds      (* 0x2703 *)
      else None                                    (* 0x2700 unitless and unknown: no key *)
  end.

(* ---- _unpack_value ---- *)
Definition exact (k : nat) (v : bytes) (f : bytes -> sval) : R sval :=
  if Nat.eqb (length v) k then Ok (f v) else Err ERange.    (* struct.error on any other length *)
Definition signed32 (n : N) : Z :=
  if N.ltb n 2147483648 then Z.of_N n else (Z.of_N n - 4294967296)%Z.
Definition uint (v : bytes) : sval := SInt (Z.of_N (le_dec v)).

Definition unpack_value (fmt : option N) (v : bytes) : R sval :=
  match fmt with
  | None => Ok (SRaw v)                                    (* if not self.pf_format *)
  | Some c =>
      if N.eqb c 0 then Ok (SRaw v)
      else if N.eqb c 1 then exact 1 v (fun b => SBool (negb (N.eqb (le_dec b) 0)))
      else if N.eqb c 4 then exact 1 v uint
      else if N.eqb c 6 then exact 2 v uint
      else if N.eqb c 8 then exact 4 v uint
      else if N.eqb c 10 then exact 8 v uint
      else if N.eqb c 16 then exact 4 v (fun b => SInt (signed32 (le_dec b)))
      else if N.eqb c 20 then exact 4 v SFloat
      else if N.eqb c 25 then (if utf8_valid v then Ok (SText v) else Err EValue)
      else if N.eqb c 27 then Ok (SHex v)
      else Ok (SRaw v)
  end.

(* ---- _pack_value (integers, bool, text, hex, raw); out of range: struct.error ---- *)
Definition pack_uint (k : nat) (z : Z) : R bytes :=
  if (Z.leb 0 z && Z.ltb z (Z.of_N (256 ^ N.of_nat k)))%bool then Ok (le_enc k (Z.to_N z)) else Err ERange.
Definition pack_value (fmt : option N) (x : sval) : R bytes :=
  match fmt, x with
  | None, SRaw b => Ok b
  | Some c, _ =>
      if N.eqb c 0 then match x with SRaw b => Ok b | _ => Crash end
      else if N.eqb c 1 then match x with SBool b => Ok [if b then 1%N else 0%N] | _ => Crash end
      else if N.eqb c 4 then match x with SInt z => pack_uint 1 z | _ => Crash end
      else if N.eqb c 6 then match x with SInt z => pack_uint 2 z | _ => Crash end
      else if N.eqb c 8 then match x with SInt z => pack_uint 4 z | _ => Crash end
      else if N.eqb c 10 then match x with SInt z => pack_uint 8 z | _ => Crash end
      else if N.eqb c 16 then
             match x with
             | SInt z => if (Z.leb (-2147483648) z && Z.ltb z 2147483648)%bool
                         then Ok (le_enc 4 (Z.to_N (if Z.ltb z 0 then z + 4294967296 else z)%Z)) else Err ERange
             | _ => Crash
             end
      else if N.eqb c 20 then match x with SFloat b => Ok b | _ => Crash end
      else if N.eqb c 25 then match x with SText b => Ok b | _ => Crash end
      else if N.eqb c 27 then match x with SHex b => Ok b | _ => Crash end
      else match x with SRaw b => Ok b | _ => Crash end
  | _, _ => Crash
  end.

(* Python truthiness of a decoded value ("if self.min_step:") *)
Definition float_zero (b : bytes) : bool :=
  match b with [b0; b1; b2; b3] => N.eqb b0 0 && N.eqb b1 0 && N.eqb b2 0 && (N.eqb b3 0 || N.eqb b3 128) | _ => false end.
Definition truthy (x : sval) : bool :=
  match x with
  | SInt z => negb (Z.eqb z 0) | SBool b => b
  | SText b | SHex b | SRaw b => negb (nil_b b)
  | SFloat b => negb (float_zero b) | SNone => false
  end.

(* ---- min_step / min_max_value / value ---- *)
Definition min_step (fmt : option N) (step : option bytes) : R (option sval) :=
  match step with
  | None | Some [] => Ok None                              (* if not self.step_value *)
  | Some s => rbind (unpack_value fmt s) (fun x => Ok (if truthy x then Some x else None))
  end.

Definition pair_of (k : nat) (r : bytes) (f : bytes -> sval) : R (option (sval * sval)) :=
  if Nat.eqb (length r) (2 * k) then Ok (Some (f (firstn k r), f (skipn k r))) else Err ERange.
Definition min_max (fmt : option N) (range : option bytes) : R (option (sval * sval)) :=
  match range with
  | None | Some [] => Ok None
  | Some r =>
      match fmt with
      | None => Ok None
      | Some c =>
          if N.eqb c 4 then pair_of 1 r uint
          else if N.eqb c 6 then pair_of 2 r uint
          else if N.eqb c 8 then pair_of 4 r uint
          else if N.eqb c 10 then pair_of 8 r uint
          else if N.eqb c 16 then pair_of 4 r (fun b => SInt (signed32 (le_dec b)))
          else if N.eqb c 20 then pair_of 4 r SFloat
          else Ok None
      end
  end.

Definition value_of (v : variant) (fmt : option N) (raw : option bytes) : R (option sval) :=
  match raw with
  | None => Ok None                                        (* if self._value is not None *)
  | Some b =>
      match v, b with
      | Coap, [] => Ok (Some SNone)                        (* coap: "if not self._value: return None" *)
      | _, _ => rbind (unpack_value fmt b) (fun x => Ok (Some x))
      end
  end.

(* ---- to_dict() ---- *)
Definition to_dict (v : variant) (i : sigin) : R sigout :=
  rbind (pf_parse (s_pf i)) (fun pf =>
  let fmt := option_map fst pf in
  let unit := option_map snd pf in
  rbind (value_of v fmt (s_raw i)) (fun val =>
  rbind (min_step fmt (s_step i)) (fun st =>
  rbind (min_max fmt (s_range i)) (fun mm =>
  Ok {| o_type := s_type i; o_iid := s_iid i; o_perms := perms_of (s_props i);
        o_bcast := match v with Ble => N.testbit (s_props i) 9 | Coap => false end;
        o_disc := match v with Ble => N.testbit (s_props i) 8 | Coap => false end;
        o_format := format_name v fmt; o_unit := unit_name unit;
        o_value := val; o_minstep := st; o_minmax := mm |})))).
