(* C07 over the encrypted session: SecureHomeKitProtocol.data_received composed with
   the HTTP feed loop it inherits.
     aiohomekit/controller/ip/connection.py::SecureHomeKitProtocol.data_received
       = C05's inbound framing model (Model/Frame.v: ip_feed - buffer, LE16 length
         prefix, 16-byte tag, nonce counter, Dead on a failed decrypt), followed, for
         every decrypted block in order, by one call of
       InsecureHomeKitProtocol.data_received = [hfeed] of Model/Http.v.
   The bytes of the HTTP stream are thus cut twice: by the accessory into blocks
   (<= 1024 bytes of plaintext each) and by TCP into reads of the ciphertext.
   An exception that leaves data_received (failed decrypt, or one raised by the HTTP
   parser while a block is handed over) ends the session: asyncio tears the transport
   down, nothing is read any more - state [Dead] on the framing side ([norm]).
   Definitions only; proofs are in Proofs/HttpSecure.v. *)
From Coq Require Import List NArith ZArith Arith Bool.
From AHK Require Import Lib.ByteStr Model.Http.
From AHK Require Model.Frame.
Import ListNotations.

Definition sstate : Type := (Frame.rstate * hstate)%type.

(* an exception out of the HTTP layer kills the connection *)
Definition norm (r : Frame.rstate) (h : hstate) : Frame.rstate :=
  match h with Run _ _ => r | _ => Frame.Dead end.

Section Secure.
  Variable opn : bytes -> bytes -> bytes -> option bytes.   (* nonce aad ct: decryptor.decrypt *)

  (* one data_received call on the secure protocol *)
  Definition secure_feed (s : sstate) (d : bytes) : sstate * list msg :=
    let (r1, plains) := Frame.ip_feed opn (fst s) d in
    let (h1, ms) := hfeeds (snd s) plains in
    ((norm r1 h1, h1), ms).

  (* a sequence of reads on one live object *)
  Fixpoint secure_feeds (s : sstate) (segs : list bytes) : sstate * list msg :=
    match segs with
    | [] => (s, [])
    | d :: r =>
        let (s1, m1) := secure_feed s d in
        let (s2, m2) := secure_feeds s1 r in
        (s2, m1 ++ m2)
    end.
End Secure.

Definition sinit (ctr : N) : sstate := (Frame.Live [] ctr, hinit).

(* cut a byte string at the given (relative) lengths: split_at [n1; n2; ...] s =
   [first n1 bytes; next n2 bytes; ...; rest] *)
Fixpoint split_at (lens : list nat) (s : bytes) : list bytes :=
  match lens with
  | [] => [s]
  | n :: r => firstn n s :: split_at r (skipn n s)
  end.
