(* C02 - SrpClient as an OBJECT with history, and several live objects in one process.
   Model/Srp.v's [client] is the pure function "new client, set_salt, set_server_public_key,
   getters".  The class of aiohomekit/crypto/srp.py is used through separate method calls on
   objects that live next to each other (one controller pairing several accessories: every
   perform_pair_setup_part2 generator holds its own SrpClient while it waits for M4), and it
   memoises the session key in the instance (Srp._session_key).  This file models exactly that:
     cobj        the attributes of one SrpClient that the public API reads
     ostep       one public method call on one object (as written, including the
                 never-invalidated _session_key memo and the exceptions of a half-initialised object)
     run         a schedule of (object index, call) pairs over a store of objects
   Definitions only; lemmas in Proofs/SrpSession.v. *)
From Coq Require Import List NArith ZArith Arith Bool.
From AHK Require Import Lib.Res Lib.ByteStr Model.Srp.
Import ListNotations.

(* public method calls of SrpClient (constructor included) *)
Inductive sev :=
| ENew (I P : bytes) (a : Z)     (* SrpClient(I, P); generate_private_key() returned a *)
| ESalt (salt : bytes)           (* set_salt(bytearray) *)
| EB (B_b : bytes)               (* set_server_public_key(B_b) *)
| EGetA                          (* get_public_key_bytes() *)
| EGetM1                         (* get_proof_bytes() *)
| EGetK                          (* get_session_key_bytes() *)
| EVerify (M_b : bytes).         (* verify_servers_proof_bytes(M_b) *)

(* what the caller sees *)
Inductive sobs :=
| ODone                          (* returned None *)
| OBytes (b : bytes)
| OBool (b : bool)
| ORaiseValue                    (* ValueError / OverflowError (pad_left of a value that does not fit) *)
| ORaiseState.                   (* RuntimeError / AttributeError / TypeError: the object is not ready *)

Definition is_getter (e : sev) : bool :=
  match e with EGetA | EGetM1 | EGetK | EVerify _ => true | _ => false end.

Section SrpSession.
  Variable H : bytes -> bytes.
  Variable PM : Z -> Z -> Z -> Z.
  Variables (Nm g kc : Z).
  Variable hgroup : bytes.
  Variable L : nat.
  Variable SL : nat.

  Local Open Scope Z_scope.

  Record cobj := {
    o_I : bytes; o_P : bytes;          (* username, password *)
    o_a : Z;                           (* self.a *)
    o_A_b : bytes;                     (* self.A_b *)
    o_salt : option (bytes * Z);       (* (self.salt_b, self.x); None before the first set_salt *)
    o_B_b : option bytes;              (* self.B_b (self.B = int.from_bytes(B_b)) *)
    o_K : option bytes                 (* self._session_key *)
  }.

  Definition set_salt (o : cobj) (v : option (bytes * Z)) : cobj :=
    {| o_I := o_I o; o_P := o_P o; o_a := o_a o; o_A_b := o_A_b o; o_salt := v; o_B_b := o_B_b o; o_K := o_K o |}.
  Definition set_B (o : cobj) (v : option bytes) : cobj :=
    {| o_I := o_I o; o_P := o_P o; o_a := o_a o; o_A_b := o_A_b o; o_salt := o_salt o; o_B_b := v; o_K := o_K o |}.
  Definition set_K (o : cobj) (v : option bytes) : cobj :=
    {| o_I := o_I o; o_P := o_P o; o_a := o_a o; o_A_b := o_A_b o; o_salt := o_salt o; o_B_b := o_B_b o; o_K := v |}.

  (* Srp.get_session_key_bytes: the memo, else H(pad_left(S)); raises while B or the salt are missing
     (RuntimeError from get_shared_secret / AttributeError on self.x) *)
  Definition get_K (o : cobj) : cobj * sobs :=
    match o_K o with
    | Some K => (o, OBytes K)
    | None =>
        match o_B_b o, o_salt o with
        | Some B_b, Some (salt_b, x) =>
            let u := cl_u H (o_A_b o) B_b in
            let S := cl_S PM Nm g kc (o_a o) x u (from_bytes B_b) in
            match padded S L with
            | Ok S_b => let K := H S_b in (set_K o (Some K), OBytes K)
            | _ => (o, ORaiseValue)
            end
        | _, _ => (o, ORaiseState)
        end
    end.

  (* SrpClient.get_proof_bytes: _assert_public_keys, K through get_session_key_bytes, then the digest *)
  Definition get_M1 (o : cobj) : cobj * sobs :=
    match o_B_b o with
    | None => (o, ORaiseState)
    | Some B_b =>
        match get_K o with
        | (o', OBytes K) =>
            match o_salt o' with
            | Some (salt_b, _) => (o', OBytes (cl_M1 H hgroup (o_I o') salt_b (o_A_b o') B_b K))
            | None => (o', ORaiseState)
            end
        | (o', other) => (o', other)
        end
    end.

  (* verify_servers_proof(int(M_b)): digest(A_b, get_proof_bytes(), get_session_key_bytes()) == M *)
  Definition verify (o : cobj) (M_b : bytes) : cobj * sobs :=
    match get_M1 o with
    | (o1, OBytes M1) =>
        match get_K o1 with
        | (o2, OBytes K) => (o2, OBool (from_bytes (cl_M2 H (o_A_b o2) M1 K) =? from_bytes M_b))
        | (o2, other) => (o2, other)
        end
    | (o1, other) => (o1, other)
    end.

  (* one call on the object bound to a name (None = no object yet) *)
  Definition ostep (s : option cobj) (e : sev) : option cobj * sobs :=
    match e, s with
    | ENew Iu Pw a, _ =>
        match padded (cl_A PM Nm g a) L with
        | Ok A_b => (Some {| o_I := Iu; o_P := Pw; o_a := a; o_A_b := A_b; o_salt := None; o_B_b := None; o_K := None |}, ODone)
        | _ => (s, ORaiseValue)             (* the constructor raised: the name keeps its old binding *)
        end
    | _, None => (None, ORaiseState)
    | ESalt salt, Some o =>
        match padded (from_bytes salt) SL with
        | Ok salt_b => (Some (set_salt o (Some (salt_b, cl_x H (o_I o) (o_P o) salt_b))), ODone)
        | _ => (Some o, ORaiseValue)        (* self.salt (the int) changed, salt_b and x did not *)
        end
    | EB B_b, Some o => (Some (set_B o (Some B_b)), ODone)
    | EGetA, Some o => (Some o, OBytes (o_A_b o))
    | EGetK, Some o => let '(o', r) := get_K o in (Some o', r)
    | EGetM1, Some o => let '(o', r) := get_M1 o in (Some o', r)
    | EVerify M_b, Some o => let '(o', r) := verify o M_b in (Some o', r)
    end.

  (* ---- several objects in one process *)
  Definition store := nat -> option cobj.
  Definition empty_store : store := fun _ => None.
  Definition upd (st : store) (i : nat) (v : option cobj) : store :=
    fun j => if Nat.eqb j i then v else st j.

  Fixpoint run (st : store) (sched : list (nat * sev)) : list (nat * sobs) :=
    match sched with
    | [] => []
    | (i, e) :: t => let '(o', r) := ostep (st i) e in (i, r) :: run (upd st i o') t
    end.

  (* one object alone *)
  Fixpoint run1 (s : option cobj) (evs : list sev) : list sobs :=
    match evs with
    | [] => []
    | e :: t => let '(o', r) := ostep s e in r :: run1 o' t
    end.

  (* what a getter returns for the exchange result r (Model/Srp.v: client) *)
  Definition expected (r : cl_result) (e : sev) : sobs :=
    match e with
    | EGetA => OBytes (r_A_b r)
    | EGetM1 => OBytes (r_M1 r)
    | EGetK => OBytes (r_K r)
    | EVerify M_b => OBool (cl_accepts r M_b)
    | _ => ODone
    end.
End SrpSession.

(* the part of a schedule / of its observations that belongs to object i *)
Definition proj {A} (i : nat) (l : list (nat * A)) : list A :=
  map snd (filter (fun p => Nat.eqb (fst p) i) l).
