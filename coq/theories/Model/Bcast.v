(* Model of the HAP-BLE encrypted broadcast notification path:
     aiohomekit/controller/ble/controller.py   BleController._device_detected (0x11 branch)
     aiohomekit/controller/ble/manufacturer_data.py  HomeKitEncryptedNotification.from_manufacturer_data
     aiohomekit/controller/ble/pairing.py      BlePairing._async_notification
     aiohomekit/controller/ble/key.py          BroadcastDecryptionKey.decrypt
     aiohomekit/crypto/chacha20poly1305.py     ChaCha20Poly1305PartialTag.open   (symbolic, see below)
     aiohomekit/controller/ble/values.py       from_bytes
   Definitions only; proofs are in Proofs/Bcast*.v.

   Cryptography is symbolic (DESIGN.md 3.2).  The encrypted payload of an
   advertisement (the bytes after  type | stl | 6-byte advertising id) is a term:
     PSeal k n aad pt   ChaCha20 ciphertext of pt followed by the first 4 bytes of the
                        Poly1305 tag, made with key k, nonce 00000000|LE64(n), AAD aad
     PJunk              any string of >= 4 bytes that is not such a term for the
                        receiver's (key, candidate counter, aad): it never opens.
                        Every single-bit corruption of a PSeal payload/tag is PJunk.
     PShort ats         a string of 1..3 bytes.  `open` takes combined[-4:] as the tag and
                        tests tag.startswith(it), so such a string opens - to the EMPTY
                        plaintext - at exactly the counters where it happens to be a
                        prefix of the receiver's tag; [ats] lists those counters.
     PEmpty             the empty string: startswith(b"") holds, it opens to the empty
                        plaintext under every key, counter and aad.
   The plaintext inside PSeal is a real byte string: it is parsed (inner GSN, iid,
   value) byte-exactly. *)
From Coq Require Import List NArith ZArith Arith Bool.
From AHK Require Import Lib.ByteStr.
Import ListNotations.
Open Scope N_scope.

Definition key := N.                      (* symbolic key name *)

Inductive payload :=
| PSeal (k : key) (ctr : N) (aad pt : bytes)
| PJunk
| PShort (ats : list N)
| PEmpty.

Fixpoint beq_bytes (a b : bytes) : bool :=
  match a, b with
  | [], [] => true
  | x :: a', y :: b' => N.eqb x y && beq_bytes a' b'
  | _, _ => false
  end.

(* ChaCha20Poly1305PartialTag.open(PACK_NONCE(n), payload, aad) under key k:
   Some plaintext, or None (the Python None) *)
Definition aopen (k : key) (n : N) (a : bytes) (p : payload) : option bytes :=
  match p with
  | PSeal k' n' a' pt => if N.eqb k k' && N.eqb n n' && beq_bytes a a' then Some pt else None
  | PJunk => None
  | PShort ats => if mem_N n ats then Some [] else None
  | PEmpty => Some []
  end.

(* ---- values.from_bytes ------------------------------------------------- *)

Inductive fmt := FBool | FU8 | FU16 | FU32 | FU64 | FInt | FFloat | FString | FOther.
(* FOther: tlv8, data, array, dict and anything else -> value.hex() *)

Inductive value :=
| VBool (b : bool)
| VInt (z : Z)
| VFloat (bits : N)      (* the 4 bytes, little-endian, as an integer; never compared as a float *)
| VStr (s : bytes)       (* valid UTF-8; the str is represented by its encoding *)
| VHex (s : bytes).

(* why an accepted notification's value was not delivered (the state number is advanced
   all the same; since fix 242be4e nothing is raised into the scanner callback) *)
Inductive crashkind :=
| CkStruct      (* from_bytes raised struct.error: value shorter than the format needs *)
| CkUnicode     (* from_bytes raised UnicodeDecodeError *)
| CkNoChar.     (* no accessory 1 / iid not in the database: char is None -> poll fallback *)

Definition in_rng (lo hi b : N) : bool := N.leb lo b && N.leb b hi.
Definition cont (b : N) : bool := in_rng 128 191 b.

(* CPython's strict UTF-8 decoder = Unicode Table 3-7 (no overlongs, no surrogates,
   nothing above U+10FFFF) *)
Fixpoint utf8_valid (l : bytes) : bool :=
  match l with
  | [] => true
  | b0 :: r =>
      if N.ltb b0 128 then utf8_valid r
      else if in_rng 194 223 b0 then
        match r with b1 :: r1 => cont b1 && utf8_valid r1 | _ => false end
      else if N.eqb b0 224 then
        match r with b1 :: b2 :: r2 => in_rng 160 191 b1 && cont b2 && utf8_valid r2 | _ => false end
      else if in_rng 225 236 b0 || in_rng 238 239 b0 then
        match r with b1 :: b2 :: r2 => cont b1 && cont b2 && utf8_valid r2 | _ => false end
      else if N.eqb b0 237 then
        match r with b1 :: b2 :: r2 => in_rng 128 159 b1 && cont b2 && utf8_valid r2 | _ => false end
      else if N.eqb b0 240 then
        match r with b1 :: b2 :: b3 :: r3 => in_rng 144 191 b1 && cont b2 && cont b3 && utf8_valid r3 | _ => false end
      else if in_rng 241 243 b0 then
        match r with b1 :: b2 :: b3 :: r3 => cont b1 && cont b2 && cont b3 && utf8_valid r3 | _ => false end
      else if N.eqb b0 244 then
        match r with b1 :: b2 :: b3 :: r3 => in_rng 128 143 b1 && cont b2 && cont b3 && utf8_valid r3 | _ => false end
      else false
  end.

(* struct.unpack_from(<k-byte unsigned>, v): needs k bytes, ignores the rest *)
Definition unpack_u (k : nat) (v : bytes) : option N :=
  if Nat.ltb (length v) k then None else Some (le_dec (firstn k v)).

Definition from_bytes (f : fmt) (v : bytes) : crashkind + value :=
  let uns k := match unpack_u k v with None => inl CkStruct | Some n => inr (VInt (Z.of_N n)) end in
  match f with
  | FBool => match unpack_u 1 v with None => inl CkStruct | Some n => inr (VBool (negb (N.eqb n 0))) end
  | FU8 => uns 1%nat
  | FU16 => uns 2%nat
  | FU32 => uns 4%nat
  | FU64 => uns 8%nat
  | FInt => match unpack_u 4 v with
            | None => inl CkStruct
            | Some n => inr (VInt (if N.ltb n 2147483648 then Z.of_N n else (Z.of_N n - 4294967296)%Z))
            end
  | FFloat => match unpack_u 4 v with None => inl CkStruct | Some n => inr (VFloat n) end
  | FString => if utf8_valid v then inr (VStr v) else inl CkUnicode
  | FOther => inr (VHex v)
  end.

(* ---- BlePairing --------------------------------------------------------- *)

Record pairing := mkP {
  p_id : bytes;                  (* pairing id = advertising id, 6 bytes (the dict key of controller.pairings) *)
  p_key : option key;            (* _broadcast_decryption_key *)
  p_sn : option N;               (* description (None: no advertisement/cache yet) and its state_num *)
  p_psn : option N;              (* _accessories_state.state_num: the persisted copy (restored after a restart) *)
  p_chars : list (N * fmt);      (* accessories.aid(1): (iid, format) in database order; [] also stands for
                                    a database without accessory 1 *)
  p_sig : bool                   (* the database has the protocol-information service with a service-signature
                                    characteristic (needed to (re)generate the broadcast key) *)
}.

Definition with_sn (p : pairing) (n : N) : pairing :=
  mkP (p_id p) (p_key p) (Some n) (p_psn p) (p_chars p) (p_sig p).

Definition with_psn (p : pairing) (x : option N) : pairing :=
  mkP (p_id p) (p_key p) (p_sn p) x (p_chars p) (p_sig p).

Definition with_key (p : pairing) (k : key) : pairing :=
  mkP (p_id p) (Some k) (p_sn p) (p_psn p) (p_chars p) (p_sig p).

Fixpoint find_char (iid : N) (cs : list (N * fmt)) : option fmt :=
  match cs with
  | [] => None
  | (i, f) :: r => if N.eqb i iid then Some f else find_char iid r
  end.

(* a listener call: pairing id, aid (always 1), iid, value *)
Definition call := (bytes * N * N * value)%type.

Inductive outcome :=
| ONotApple        (* no Apple manufacturer data / empty *)
| OOtherType       (* first byte is not 0x11 (not the code this property is about) *)
| ONoPairing       (* advertising id matches no pairing *)
| ONoKey           (* no broadcast key: falls back to _process_disconnected_events *)
| ONoDesc          (* "Received encrypted notification before advertisement" *)
| ONoDecrypt       (* no candidate opened: falls back to _process_disconnected_events *)
| OStale           (* opened at the stored state number *)
| OMismatch        (* inner GSN differs from the nonce counter *)
| OAccepted        (* state number advanced, listeners called *)
| OUndelivered (k : crashkind).  (* state number advanced, nothing delivered, nothing raised *)

(* does the step end in self._process_disconnected_events() (poll the accessory)? *)
Definition falls_back (o : outcome) : bool :=
  match o with
  | ONoKey | ONoDecrypt | OUndelivered CkNoChar => true
  | _ => false
  end.

(* the candidate tuple  (s+1, s, *range(s+2, s+100)) ; w = 98 in the implementation *)
Definition cands_w (w : nat) (s : N) : list N :=
  (s + 1) :: s :: map (fun i => s + 2 + N.of_nat i) (seq 0 w).

Inductive scan_res := SNone | SHit (n : N) (pt : bytes).

(* the for loop up to the first successful decrypt (every branch after it returns) *)
Fixpoint scan (k : key) (a : bytes) (body : payload) (cs : list N) : scan_res :=
  match cs with
  | [] => SNone
  | n :: r => match aopen k n a body with
              | None => scan k a body r
              | Some pt => SHit n pt
              end
  end.

Definition gsn_of (pt : bytes) : N := le_dec (firstn 2 pt).
Definition iid_of (pt : bytes) : N := le_dec (firstn 2 (skipn 2 pt)).
Definition value_of (pt : bytes) : bytes := firstn 8 (skipn 4 pt).

(* what the listeners receive for an accepted plaintext *)
Definition deliver (p : pairing) (pt : bytes) : outcome * list call :=
  match find_char (iid_of pt) (p_chars p) with
  | None => (OUndelivered CkNoChar, [])
  | Some f => match from_bytes f (value_of pt) with
              | inl ck => (OUndelivered ck, [])
              | inr v => (OAccepted, [(p_id p, 1, iid_of pt, v)])
              end
  end.

(* BlePairing._async_notification(data) with data.advertising_identifier = a,
   data.encrypted_payload = body *)
Definition notify_w (w : nat) (p : pairing) (a : bytes) (body : payload)
  : pairing * outcome * list call :=
  match p_key p with
  | None => (p, ONoKey, [])
  | Some k =>
      match p_sn p with
      | None => (p, ONoDesc, [])
      | Some s =>
          match scan k a body (cands_w w s) with
          | SNone => (p, ONoDecrypt, [])
          | SHit n pt =>
              if N.eqb n s then (p, OStale, [])
              else if negb (N.eqb (gsn_of pt) n) then (p, OMismatch, [])
              else let '(o, cl) := deliver p pt in (with_sn p (gsn_of pt), o, cl)
          end
      end
  end.

(* ---- BleController._device_detected ------------------------------------ *)

Definition ctrl := list pairing.     (* controller.pairings; ids are the dict keys *)

(* an advertisement's Apple manufacturer data = hdr ++ [[body]]; hdr is the first
   (up to) 8 bytes.  When fewer than 8 bytes exist there is no payload. *)
Definition frame := (bytes * payload)%type.

Fixpoint route_w (w : nat) (c : ctrl) (a : bytes) (body : payload) : ctrl * outcome * list call :=
  match c with
  | [] => ([], ONoPairing, [])
  | p :: r =>
      if beq_bytes (p_id p) a
      then let '(p', o, cl) := notify_w w p a body in (p' :: r, o, cl)
      else let '(r', o, cl) := route_w w r a body in (p :: r', o, cl)
  end.

Definition detect_w (w : nat) (c : ctrl) (f : frame) : ctrl * outcome * list call :=
  let '(hdr, body) := f in
  match hdr with
  | [] => (c, ONotApple, [])
  | t :: _ =>
      if N.eqb t 17 then
        let a := firstn 6 (skipn 2 hdr) in
        let body' := if Nat.ltb (length hdr) 8 then PEmpty else body in
        route_w w c a body'
      else (c, OOtherType, [])
  end.

(* a history of advertisements: per step (controller after, outcome, listener calls) *)
Fixpoint run_w (w : nat) (c : ctrl) (h : list frame) : list (ctrl * outcome * list call) :=
  match h with
  | [] => []
  | f :: r => let x := detect_w w c f in x :: run_w w (fst (fst x)) r
  end.

Definition final_w (w : nat) (c : ctrl) (h : list frame) : ctrl :=
  fold_left (fun c f => fst (fst (detect_w w c f))) h c.

(* instances used by the implementation *)
Definition notify := notify_w 98.
Definition detect := detect_w 98.
Definition run := run_w 98.
Definition final := final_w 98.

(* state number of the j-th pairing *)
Definition sn_at (c : ctrl) (j : nat) : option N :=
  match nth_error c j with Some p => p_sn p | None => None end.

(* the state numbers pairing j adopts along a history (one entry per step at which
   its stored number changes) *)
Fixpoint accepted_w (w : nat) (j : nat) (c : ctrl) (h : list frame) : list N :=
  match h with
  | [] => []
  | f :: r =>
      let c' := fst (fst (detect_w w c f)) in
      match sn_at c j, sn_at c' j with
      | Some s, Some s' => if N.eqb s s' then accepted_w w j c' r else s' :: accepted_w w j c' r
      | None, Some s' => s' :: accepted_w w j c' r
      | _, None => accepted_w w j c' r
      end
  end.
Definition accepted := accepted_w 98.

(* calls addressed to the listeners of the pairing with id i *)
Definition calls_for (i : bytes) (cl : list call) : list call :=
  filter (fun x => beq_bytes (fst (fst (fst x))) i) cl.

(* ---- the other writers of the state number --------------------------------
   The stored number lives in two places: description.state_num (p_sn, what
   _async_notification reads and writes) and _accessories_state.state_num (p_psn,
   persisted in the characteristic cache and restored by a restart).  Besides an
   accepted broadcast the following operations write them:
     OPopulate i n   BlePairing._populate_char_values: description.state_num := n
                     (the accessory's protocol parameters read over a connection)
     OUpdate i n     BlePairing._update_state_num(n) (disconnected-events poll,
                     GSN carried by a response): both copies := n
     OPlain i n      a well-formed regular (type 0x06, UNAUTHENTICATED) advertisement with
                     an unchanged config number: description replaced, both copies := n
     ORestart        process restart: every pairing is rebuilt from the cache;
                     description := from_cache(persisted) when the persisted number is
                     truthy, else None (the broadcast key is restored from the cache, where
                     OSetKey saved it)
     OSetKey i k     key (re)generation, e.g. at the 16-bit roll-over of the state number
   OPopulate/OUpdate need a description (the code dereferences it); without one the
   model leaves the pairing alone (not generated by the harness). *)
Inductive op :=
| OAdv (f : frame)
| OPopulate (i : bytes) (n : N)
| OUpdate (i : bytes) (n : N)
| OPlain (i : bytes) (n : N)
| ORestart
| OSetKey (i : bytes) (k : key).

Fixpoint upd_pairing (g : pairing -> pairing) (c : ctrl) (i : bytes) : ctrl :=
  match c with
  | [] => []
  | p :: r => if beq_bytes (p_id p) i then g p :: r else p :: upd_pairing g r i
  end.

Definition populate_p (n : N) (p : pairing) : pairing :=
  match p_sn p with Some _ => with_sn p n | None => p end.
Definition update_p (n : N) (p : pairing) : pairing :=
  match p_sn p with Some _ => with_psn (with_sn p n) (Some n) | None => p end.
Definition plain_p (n : N) (p : pairing) : pairing := with_psn (with_sn p n) (Some n).
Definition restart_p (p : pairing) : pairing :=
  mkP (p_id p) (p_key p)
      (match p_psn p with Some n => if N.eqb n 0 then None else Some n | None => None end)
      (p_psn p) (p_chars p) (p_sig p).
(* BlePairing._async_set_broadcast_encryption_key inside an authenticated session: asks the
   accessory to generate a new broadcast key, derives it (HKDF of the session secret, salt =
   controller LTPK, info "Broadcast-Encryption-Key" - the symbolic key k names the result),
   installs it and saves it in the cache (so a restart restores it).  Without a
   service-signature characteristic the method returns early and nothing changes. *)
Definition setkey_p (k : key) (p : pairing) : pairing := if p_sig p then with_key p k else p.

Definition apply_w (w : nat) (c : ctrl) (o : op) : ctrl * outcome * list call :=
  match o with
  | OAdv f => detect_w w c f
  | OPopulate i n => (upd_pairing (populate_p n) c i, OOtherType, [])
  | OUpdate i n => (upd_pairing (update_p n) c i, OOtherType, [])
  | OPlain i n => (upd_pairing (plain_p n) c i, OOtherType, [])
  | ORestart => (map restart_p c, OOtherType, [])
  | OSetKey i k => (upd_pairing (setkey_p k) c i, OOtherType, [])
  end.
Definition apply := apply_w 98.

Definition final_ops_w (w : nat) (c : ctrl) (h : list op) : ctrl :=
  fold_left (fun c o => fst (fst (apply_w w c o))) h c.
Definition final_ops := final_ops_w 98.

(* ---- the first connected (GATT) event of a session ------------------------------
   BlePairing._async_start_notify.<locals>._async_callback: reads the accessory's GSN g
   (_update_state_num g), then, once per session, increments it; when the increment reaches
   MAX_GSN = 65535 the number rolls over to 1 and - BEFORE the new number is recorded - a new
   broadcast key is requested (await: advertisements can be delivered while the request is in
   flight; the request can fail, e.g. the accessory disconnects: then the exception leaves the
   callback and the number stays g under the old key).  A PDUStatusError of the request is
   only logged: the key is derived and installed anyway (= ReqOk).
     event_begin i g     everything up to the suspension point (all of it when nothing rolls over)
     event_end i g r     the rest, once the key request returned with r *)
Inductive keyreq := ReqOk (k : key) | ReqFail.

Definition rolls (g : N) : bool := N.leb 65535 (g + 1).

Definition event_begin (i : bytes) (g : N) : list op :=
  if rolls g then [OUpdate i g] else [OUpdate i g; OUpdate i (g + 1)].

Definition event_end (i : bytes) (g : N) (r : keyreq) : list op :=
  if rolls g then
    match r with
    | ReqOk k' => [OSetKey i k'; OUpdate i 1]      (* key first, then the number *)
    | ReqFail => []
    end
  else [].

(* ---- the disconnected-events poll as a suspendable operation ---------------------
   BlePairing._async_process_disconnected_events: awaits _process_disconnected_events_with_retry
   (connect, read the protocol parameters and the subscribed values); advertisements can be
   delivered while it hangs in the connection attempt.  On success the accessory's number n is
   written (_update_state_num n); when it fails (AccessoryDisconnectedError, Bleak errors,
   AccessoryNotFoundError) it is logged and NOTHING is written - in particular numbers accepted
   from broadcasts in the meantime stay accepted. *)
Inductive pollres := PollOk (n : N) | PollFail.
Definition poll_begin (i : bytes) : list op := [].
Definition poll_end (i : bytes) (r : pollres) : list op :=
  match r with PollOk n => [OUpdate i n] | PollFail => [] end.

(* ---- outside the property's quantifier: the plain (type 0x06) advertisement ----
   A well-formed regular advertisement for id i with an unchanged config number
   replaces the description, hence the stored state number, by the advertised one
   (AbstractPairing._async_description_update).  It is not authenticated.  Used only
   for the observation bcast_plain_adv_rollback in Proofs/BcastHist.v.
   (= OPlain restricted to the description copy; kept for that Example.) *)
Fixpoint plain_adv (c : ctrl) (i : bytes) (sn : N) : ctrl :=
  match c with
  | [] => []
  | p :: r => if beq_bytes (p_id p) i then with_sn p sn :: r else p :: plain_adv r i sn
  end.
