(* C02 - the HAP instance of Model/SrpSession.v and its correspondence entry point. Definitions only. *)
From Coq Require Import List NArith ZArith.
From AHK Require Import Lib.Res Lib.ByteStr Model.Sha512 Model.Srp Model.SrpCases Model.SrpBig Model.SrpSession.
Import ListNotations.

Definition hap_ostep (PM : Z -> Z -> Z -> Z) :=
  ostep sha512 PM N3072 G3072 K_LITERAL HGROUP_BYTES HK_KEY_LENGTH SALT_LENGTH.
Definition hap_run (PM : Z -> Z -> Z -> Z) :=
  run sha512 PM N3072 G3072 K_LITERAL HGROUP_BYTES HK_KEY_LENGTH SALT_LENGTH.
Definition hap_run1 (PM : Z -> Z -> Z -> Z) :=
  run1 sha512 PM N3072 G3072 K_LITERAL HGROUP_BYTES HK_KEY_LENGTH SALT_LENGTH.

Local Open Scope N_scope.

(* observations travel as lists of numbers: the first element is a tag that is not a byte *)
Definition obs_code (r : sobs) : list N :=
  match r with
  | ODone => [1000]
  | OBytes b => 1001 :: b
  | OBool b => [1002; b2n b]
  | ORaiseValue => [1003]
  | ORaiseState => [1004]
  end.

(* a schedule of method calls over several live SrpClient objects -> one observation per call *)
Definition session_case (sched : list (nat * sev)) : list (list N) :=
  map (fun p => obs_code (snd p)) (hap_run powm_fast (empty_store) sched).
