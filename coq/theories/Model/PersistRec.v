(* C20 (part ii) - record-level serialisers: what is written into / read back from the JSON
   documents (the JSON text layer itself is the abstract codec of Model/Persist.v).

     aiohomekit/model/__init__.py                      Accessory.create_from_dict, to_accessory_and_service_list,
                                                       Accessories.from_list / serialize
     aiohomekit/model/services/service.py              Service.__init__, to_accessory_and_service_list
     aiohomekit/model/characteristics/characteristic.py Characteristic.__init__, set_value, to_accessory_and_service_list
     aiohomekit/controller/abstract.py                 _load_accessories_from_cache / _update_accessories_state_cache
     aiohomekit/utils.py                               (de)serialize_broadcast_key
     aiohomekit/controller/controller.py               load_pairing / load_data / save_data (record level)

   Python values are JSON values [jv]; Python None is [None] of an [option jv] (JSON null maps
   to None on the way in, None to null on the way out).  Dictionaries coming from the parsed
   JSON are association lists; a missing mandatory key is the KeyError the code would raise
   ([Crash]).  Definitions only. *)
From Coq Require Import List NArith ZArith Arith Bool Lia.
From AHK Require Import Lib.Res Lib.ByteStr Model.Persist.
Import ListNotations.
Open Scope Z_scope.

Inductive jv :=
| JNull
| JBool (b : bool)
| JInt (z : Z)
| JFlt (m : Z) (e : nat)            (* the decimal m * 10^-e, as printed *)
| JStr (s : bytes)
| JArr (l : list jv)
| JObj (kv : list (bytes * jv)).

(* ASCII constants (no Coq [string]: its extraction would shadow OCaml's String module) *)
Definition a_pr : bytes := [112; 114]%N.
Definition a_bool : bytes := [98; 111; 111; 108]%N.
Definition a_uint8 : bytes := [117; 105; 110; 116; 56]%N.
Definition a_uint16 : bytes := [117; 105; 110; 116; 49; 54]%N.
Definition a_uint32 : bytes := [117; 105; 110; 116; 51; 50]%N.
Definition a_uint64 : bytes := [117; 105; 110; 116; 54; 52]%N.
Definition a_int : bytes := [105; 110; 116]%N.
Definition a_float : bytes := [102; 108; 111; 97; 116]%N.
Definition a_string : bytes := [115; 116; 114; 105; 110; 103]%N.
Definition a_array : bytes := [97; 114; 114; 97; 121]%N.
Definition a_dict : bytes := [100; 105; 99; 116]%N.
Definition a_Connection : bytes := [67; 111; 110; 110; 101; 99; 116; 105; 111; 110]%N.
Definition a_AccessoryPairingID : bytes := [65; 99; 99; 101; 115; 115; 111; 114; 121; 80; 97; 105; 114; 105; 110; 103; 73; 68]%N.
Definition a_AccessoryIP : bytes := [65; 99; 99; 101; 115; 115; 111; 114; 121; 73; 80]%N.
Definition a_AccessoryPort : bytes := [65; 99; 99; 101; 115; 115; 111; 114; 121; 80; 111; 114; 116]%N.
Definition a_AccessoryAddress : bytes := [65; 99; 99; 101; 115; 115; 111; 114; 121; 65; 100; 100; 114; 101; 115; 115]%N.
Definition a_IP : bytes := [73; 80]%N.
Definition a_CoAP : bytes := [67; 111; 65; 80]%N.
Definition a_BLE : bytes := [66; 76; 69]%N.

(* Python truthiness *)
Definition truthy (v : jv) : bool :=
  match v with
  | JNull => false
  | JBool b => b
  | JInt z => negb (Z.eqb z 0)
  | JFlt m _ => negb (Z.eqb m 0)
  | JStr s => negb (nil_b s)
  | JArr l => negb (nil_b l)
  | JObj l => negb (nil_b l)
  end.
Definition otruthy (o : option jv) : bool := match o with Some v => truthy v | None => false end.

(* JSON null <-> None *)
Definition pyval (v : jv) : option jv := match v with JNull => None | _ => Some v end.
Definition jsonval (o : option jv) : jv := match o with Some v => v | None => JNull end.

(* numbers: b < a  (min(a, b) returns a unless b < a); None = TypeError *)
Definition num_parts (v : jv) : option (Z * nat) :=
  match v with
  | JInt z => Some (z, O)
  | JFlt m e => Some (m, e)
  | JBool b => Some (if b then 1 else 0, O)
  | _ => None
  end.
Definition num_lt (b a : jv) : option bool :=
  match num_parts b, num_parts a with
  | Some (mb, eb), Some (ma, ea) => Some (Z.ltb (mb * 10 ^ Z.of_nat ea) (ma * 10 ^ Z.of_nat eb))
  | _, _ => None
  end.

(* ---------------------------------------------------------------- characteristics *)
Inductive ckey :=
| K_type | K_iid | K_perms | K_format | K_value | K_ev | K_description | K_unit
| K_minValue | K_maxValue | K_minStep | K_maxLen | K_valid_values | K_handle
| K_broadcast_events | K_disconnected_events.
Definition ckey_eqb (a b : ckey) : bool :=
  match a, b with
  | K_type, K_type | K_iid, K_iid | K_perms, K_perms | K_format, K_format | K_value, K_value
  | K_ev, K_ev | K_description, K_description | K_unit, K_unit | K_minValue, K_minValue
  | K_maxValue, K_maxValue | K_minStep, K_minStep | K_maxLen, K_maxLen
  | K_valid_values, K_valid_values | K_handle, K_handle
  | K_broadcast_events, K_broadcast_events | K_disconnected_events, K_disconnected_events => true
  | _, _ => false
  end.
Definition cdict := list (ckey * jv).
Fixpoint clook (k : ckey) (d : cdict) : option jv :=
  match d with
  | [] => None
  | (k', v) :: r => if ckey_eqb k k' then Some v else clook k r
  end.

Record chr := mkchr {
  c_type : bytes;
  c_iid : jv;
  c_perms : list bytes;
  c_format : option jv;
  c_value : option jv;
  c_desc : option jv;
  c_unit : option jv;
  c_min : option jv;
  c_max : option jv;
  c_step : option jv;
  c_valid : option jv;
  c_handle : option jv;
  c_bcast : option jv;
  c_disc : option jv }.

(* per-type defaults from aiohomekit/model/characteristics/data.py used by _get_configuration *)
Record ctab := mkctab {
  t_format : option jv; t_desc : option jv; t_unit : option jv;
  t_min : option jv; t_max : option jv; t_step : option jv }.
Definition no_tab : ctab := mkctab None None None None None None.

Definition pr : bytes := a_pr.
Definition has_pr (perms : list bytes) : bool := existsb (bytes_eqb pr) perms.

Definition fmt_is (name : bytes) (f : option jv) : bool :=
  match f with Some (JStr s) => bytes_eqb s name | _ => false end.

(* DEFAULT_FOR_TYPE.get(format) *)
Definition default_for (f : option jv) : option jv :=
  if fmt_is a_bool f then Some (JBool false)
  else if fmt_is a_uint8 f || fmt_is a_uint16 f || fmt_is a_uint32 f
          || fmt_is a_uint64 f || fmt_is a_int f then Some (JInt 0)
  else if fmt_is a_float f then Some (JFlt 0 1)
  else if fmt_is a_string f then Some (JStr [])
  else if fmt_is a_array f then Some (JArr [])
  else if fmt_is a_dict f then Some (JObj [])
  else None.

Definition perms_of (v : jv) : option (list bytes) :=
  match v with
  | JArr l => fold_right (fun x acc => match x, acc with JStr s, Some r => Some (s :: r) | _, _ => None end) (Some []) l
  | _ => None
  end.

(* the value a freshly constructed Characteristic gets (no "value" keyword) *)
Definition initial_value (perms : list bytes) (fmt valid mn mx : option jv) : res unit (option jv) :=
  if negb (has_pr perms) then Ok None else
  if otruthy valid then
    match valid with
    | Some (JArr (x :: _)) => Ok (pyval x)
    | _ => Crash                               (* valid_values[0] on a non-list *)
    end
  else
    let v0 := default_for fmt in
    (* "if not value: value = minValue; value = max(value, minValue)": no default is truthy
       (lemma default_for_falsy), so the value is minValue itself *)
    let v1 := if otruthy mn then mn else v0 in
    if otruthy mx then
      if otruthy v1 then
        match v1, mx with
        | Some a, Some b =>
            match num_lt b a with
            | Some true => Ok (Some b)
            | Some false => Ok (Some a)
            | None => Crash                    (* min() of incomparable values *)
            end
        | _, _ => Ok v1
        end
      else Ok mx
    else Ok v1.

(* set_value: bool format casts through bool() *)
Definition set_value (fmt : option jv) (v : jv) : option jv :=
  if fmt_is a_bool fmt then Some (JBool (truthy v)) else Some v.

Section Rec.
  Variable norm : bytes -> option bytes.     (* normalize_uuid; None = ValueError *)
  Variable tbl : bytes -> ctab.              (* characteristics[type] (no_tab when unknown) *)

  Definition cfg (d : cdict) (k : ckey) (dflt : option jv) : option jv :=
    match clook k d with Some v => pyval v | None => dflt end.

  (* one iteration of the inner loop of Accessory.create_from_dict *)
  Definition chr_from_dict (d : cdict) : res unit chr :=
    match clook K_perms d with
    | None => Crash                                                   (* char_data["perms"] *)
    | Some pv =>
      match clook K_type d with
      | None => Crash                                                 (* char_data["type"] *)
      | Some (JStr ty0) =>
        match clook K_iid d with
        | None => Crash                                               (* char_data["iid"] *)
        | Some iid =>
          match norm ty0 with
          | None => Err tt
          | Some ty =>
            match perms_of pv with
            | None => Crash                                           (* outside the modelled domain *)
            | Some perms =>
              let tb := tbl ty in
              let fmt := cfg d K_format (t_format tb) in
              let valid := cfg d K_valid_values None in
              let mn := cfg d K_minValue (t_min tb) in
              let mx := cfg d K_maxValue (t_max tb) in
              rbind (initial_value perms fmt valid mn mx) (fun v0 =>
              let v := match clook K_value d with
                       | Some JNull | None => v0
                       | Some x => set_value fmt x
                       end in
              Ok (mkchr ty iid perms fmt v
                        (cfg d K_description (t_desc tb)) (cfg d K_unit (t_unit tb))
                        mn mx (cfg d K_minStep (t_step tb)) valid
                        (cfg d K_handle None) (cfg d K_broadcast_events None) (cfg d K_disconnected_events None)))
            end
          end
        end
      | Some _ => Crash                                               (* non-string type: .upper() *)
      end
    end.

  Definition opt_entry (e : ckey * option jv) : cdict :=
    match snd e with Some v => [(fst e, v)] | None => [] end.
  Definition when (b : bool) (v : jv) : option jv := if b then Some v else None.

  (* Characteristic.to_accessory_and_service_list: the keys in emission order, None = not emitted *)
  Definition chr_entries (c : chr) : list (ckey * option jv) :=
    [(K_type, Some (JStr (c_type c)));
     (K_iid, Some (c_iid c));
     (K_perms, Some (JArr (map JStr (c_perms c))));
     (K_format, Some (jsonval (c_format c)));
     (K_value, when (has_pr (c_perms c)) (jsonval (c_value c)));
     (K_description, when (otruthy (c_desc c)) (jsonval (c_desc c)));
     (K_unit, when (otruthy (c_unit c)) (jsonval (c_unit c)));
     (K_minValue, c_min c);
     (K_maxValue, c_max c);
     (K_minStep, c_step c);
     (K_maxLen, when (fmt_is a_string (c_format c)) (JInt 64));
     (K_valid_values, c_valid c);
     (K_handle, c_handle c);
     (K_disconnected_events, c_disc c);
     (K_broadcast_events, c_bcast c)].
  Definition chr_to_dict (c : chr) : cdict := flat_map opt_entry (chr_entries c).

  (* ---------------------------------------------------------------- services, accessories *)
  (* dictionaries as parsed; None = key absent *)
  Record sdict := mksd { sd_iid : option jv; sd_type : option jv; sd_chars : option (list cdict);
                         sd_linked : option (list jv) }.
  Record adict := mkad { ad_aid : option jv; ad_services : option (list sdict) }.

  Record svc := mksvc { s_iid : jv; s_type : bytes; s_chars : list chr; s_linked : list jv }.
  Record acc := mkacc { a_aid : jv; a_services : list svc }.

  Fixpoint chars_from (ds : list cdict) : res unit (list chr) :=
    match ds with
    | [] => Ok []
    | d :: r => rbind (chr_from_dict d) (fun c => rbind (chars_from r) (fun cs => Ok (c :: cs)))
    end.

  (* first pass over data["services"]; ctr = accessory._next_id (get_next_id is evaluated as the
     default argument for every characteristic, and used for a service without a truthy iid) *)
  Fixpoint services_from (ctr : Z) (sds : list sdict) : res unit (list svc) :=
    match sds with
    | [] => Ok []
    | sd :: r =>
      match sd_type sd with
      | None => Crash
      | Some (JStr ty0) =>
        match sd_iid sd with
        | None => Crash
        | Some iid0 =>
          match norm ty0 with
          | None => Err tt
          | Some ty =>
            let '(iid, ctr1) := if truthy iid0 then (iid0, ctr) else (JInt (ctr + 1), ctr + 1) in
            match sd_chars sd with
            | None => Crash
            | Some cds =>
              rbind (chars_from cds) (fun cs =>
              rbind (services_from (ctr1 + Z.of_nat (List.length cds)) r) (fun ss =>
              Ok (mksvc iid ty cs [] :: ss)))
            end
          end
        end
      | Some _ => Crash
      end
    end.

  Definition iid_eqb (a b : jv) : bool :=
    match a, b with JInt x, JInt y => Z.eqb x y | _, _ => false end.
  Definition has_iid (i : jv) (ss : list svc) : bool := existsb (fun s => iid_eqb (s_iid s) i) ss.
  Definition true_links (sd : sdict) : list jv :=
    match sd_linked sd with Some l => filter truthy l | None => [] end.
  (* second pass: links are appended to the service registered under service_data["iid"]
     (the last one with that iid), each link must resolve (KeyError otherwise) *)
  Definition links_ok (ss : list svc) (sds : list sdict) : bool :=
    forallb (fun sd => match true_links sd with
                       | [] => true
                       | ls => match sd_iid sd with
                               | Some i => has_iid i ss && forallb (fun l => has_iid l ss) ls
                               | None => false
                               end
                       end) sds.
  Definition links_for (i : jv) (sds : list sdict) : list jv :=
    flat_map (fun sd => match sd_iid sd with
                        | Some j => if iid_eqb j i then true_links sd else []
                        | None => []
                        end) sds.
  (* services later in the list shadow earlier ones with the same iid in _iid_to_service *)
  Fixpoint attach_links (ss : list svc) (sds : list sdict) : list svc :=
    match ss with
    | [] => []
    | s :: r =>
      let l := if has_iid (s_iid s) r then [] else links_for (s_iid s) sds in
      mksvc (s_iid s) (s_type s) (s_chars s) l :: attach_links r sds
    end.

  Definition acc_from_dict (d : adict) : res unit acc :=
    match ad_aid d with
    | None => Crash
    | Some aid =>
      match ad_services d with
      | None => Crash
      | Some sds =>
        rbind (services_from 0 sds) (fun ss =>
        if links_ok ss sds then Ok (mkacc aid (attach_links ss sds)) else Crash)
      end
    end.

  Definition svc_to_dict (s : svc) : sdict :=
    mksd (Some (s_iid s)) (Some (JStr (s_type s))) (Some (map chr_to_dict (s_chars s)))
         (match s_linked s with [] => None | l => Some l end).
  Definition acc_to_dict (a : acc) : adict :=
    mkad (Some (a_aid a)) (Some (map svc_to_dict (a_services a))).

  Fixpoint accs_from (ds : list adict) : res unit (list acc) :=
    match ds with
    | [] => Ok []
    | d :: r => rbind (acc_from_dict d) (fun a => rbind (accs_from r) (fun l => Ok (a :: l)))
    end.
  Definition accs_to (l : list acc) : list adict := map acc_to_dict l.
End Rec.


(* ---------------------------------------------------------------- executable well-formedness
   (the hypotheses of the round-trip theorems as a boolean check; Proofs/PersistRec.v shows it
   sound; the correspondence driver evaluates it on the objects built from every generated map) *)
Definition nn (o : option jv) : bool := match o with Some JNull => false | _ => true end.

Fixpoint distinct_iids (ss : list svc) : bool :=
  match ss with
  | [] => true
  | s :: r => negb (has_iid (s_iid s) r) && distinct_iids r
  end.

Section WfDecDefs.
  Variable norm : bytes -> option bytes.
  Variable tbl : bytes -> ctab.
  Definition norm_fixb (t : bytes) : bool :=
    match norm t with Some t' => bytes_eqb t' t | None => false end.
  Definition is_none {A} (o : option A) : bool := match o with None => true | Some _ => false end.
  Definition tab_okb (field tabv : option jv) : bool := match field with None => is_none tabv | Some _ => true end.
  Definition is_jbool (v : jv) : bool := match v with JBool _ => true | _ => false end.

  Definition value_okb (c : chr) : bool :=
    match c_value c with
    | Some x =>
        has_pr (c_perms c) && nn (Some x) &&
        (if fmt_is a_bool (c_format c) then is_jbool x else true) &&
        is_ok (initial_value (c_perms c) (c_format c) (c_valid c) (c_min c) (c_max c))
    | None =>
        match initial_value (c_perms c) (c_format c) (c_valid c) (c_min c) (c_max c) with
        | Ok None => true
        | _ => false
        end
    end.

  Definition wf_chrb (c : chr) : bool :=
    norm_fixb (c_type c) && nn (c_format c) && nn (c_min c) && nn (c_max c) && nn (c_step c) &&
    nn (c_valid c) && nn (c_handle c) && nn (c_bcast c) && nn (c_disc c) &&
    tab_okb (c_min c) (t_min (tbl (c_type c))) && tab_okb (c_max c) (t_max (tbl (c_type c))) &&
    tab_okb (c_step c) (t_step (tbl (c_type c))) && value_okb c.

  Definition is_idb (v : jv) : bool := match v with JInt z => negb (Z.eqb z 0) | _ => false end.
  Definition wf_svcb (all : list svc) (s : svc) : bool :=
    is_idb (s_iid s) && norm_fixb (s_type s) && forallb wf_chrb (s_chars s) &&
    forallb truthy (s_linked s) && forallb (fun l => has_iid l all) (s_linked s).
  Definition wf_accb (a : acc) : bool :=
    forallb (wf_svcb (a_services a)) (a_services a) && distinct_iids (a_services a).

End WfDecDefs.

(* ---------------------------------------------------------------- broadcast key: bytes.hex / fromhex *)
Definition hex_digit (n : N) : N := if N.ltb n 10 then (48 + n)%N else (87 + n)%N.
Definition hex_val (c : N) : option N :=
  if (N.leb 48 c && N.leb c 57)%bool then Some (c - 48)%N
  else if (N.leb 97 c && N.leb c 102)%bool then Some (c - 87)%N
  else if (N.leb 65 c && N.leb c 70)%bool then Some (c - 55)%N
  else None.
Fixpoint hex_enc (b : bytes) : bytes :=
  match b with
  | [] => []
  | x :: r => hex_digit (x / 16)%N :: hex_digit (x mod 16)%N :: hex_enc r
  end.
Fixpoint hex_dec (s : bytes) : option bytes :=
  match s with
  | [] => Some []
  | a :: b :: r =>
      match hex_val a, hex_val b, hex_dec r with
      | Some x, Some y, Some t => Some ((16 * x + y)%N :: t)
      | _, _, _ => None
      end
  | [_] => None
  end.

(* ---------------------------------------------------------------- cache entry <-> AccessoriesState *)
Section CacheEntry.
  Variable norm : bytes -> option bytes.
  Variable tbl : bytes -> ctab.

  (* the Pairing TypedDict as stored under "pairings"[id]; None = key absent / null as noted *)
  Record centry := mkce {
    e_config : option jv;            (* cache.get("config_num", 0): None = key absent *)
    e_accs : option (list adict);    (* cache["accessories"] *)
    e_bkey : option jv;              (* cache.get("broadcast_key"): None = absent or null *)
    e_state : option jv }.           (* cache.get("state_num") *)
  Record astate := mkas { st_accs : list acc; st_config : jv; st_bkey : option bytes; st_state : option jv }.

  (* AbstractPairing._load_accessories_from_cache *)
  Definition entry_load (e : centry) : res unit astate :=
    match e_accs e with
    | None => Crash
    | Some ads =>
      rbind (accs_from norm tbl ads) (fun accs =>
      let cfgn := match e_config e with Some v => v | None => JInt 0 end in
      match e_bkey e with
      | None => Ok (mkas accs cfgn None (e_state e))
      | Some (JStr h) =>
          match hex_dec h with
          | Some k => Ok (mkas accs cfgn (Some k) (e_state e))
          | None => Err tt                        (* bytes.fromhex: ValueError *)
          end
      | Some _ => Crash                           (* fromhex on a non-string *)
      end)
    end.
  (* AbstractPairing._update_accessories_state_cache -> async_create_or_update_map *)
  Definition entry_save (s : astate) : centry :=
    mkce (Some (st_config s)) (Some (accs_to (st_accs s)))
         (match st_bkey s with Some k => Some (JStr (hex_enc k)) | None => None end)
         (st_state s).
End CacheEntry.

(* ---------------------------------------------------------------- pairing records *)
Definition pdata := list (bytes * jv).
Fixpoint plook (k : bytes) (d : pdata) : option jv :=
  match d with
  | [] => None
  | (k', v) :: r => if bytes_eqb k k' then Some v else plook k r
  end.
Definition k_conn := a_Connection.
Definition k_id := a_AccessoryPairingID.
Definition k_ip := a_AccessoryIP.
Definition k_port := a_AccessoryPort.
Definition k_addr := a_AccessoryAddress.

Inductive lp_result := LpLoaded (d : pdata) | LpSkipped | LpCrash.

Definition str_is (name : bytes) (v : option jv) : bool :=
  match v with Some (JStr s) => bytes_eqb s name | _ => false end.

(* Controller.load_pairing with the IP, CoAP and BLE transports registered *)
Definition load_pairing (d0 : pdata) : lp_result :=
  let d := match plook k_conn d0 with Some _ => d0 | None => d0 ++ [(k_conn, JStr a_IP)] end in
  let conn := plook k_conn d in
  let idv := plook k_id d in
  let id_ok := match idv with Some (JStr s) => negb (nil_b s) | _ => false end in
  if str_is a_IP conn then
    if otruthy idv then
      match plook k_ip d, plook k_port d with
      | Some _, Some _ => if id_ok then LpLoaded d else LpCrash
      | _, _ => LpCrash                              (* pairing_data["AccessoryIP"/"AccessoryPort"] *)
      end
    else LpSkipped
  else if str_is a_CoAP conn then
    if otruthy idv then
      match plook k_ip d, plook k_port d with
      | Some _, Some _ => if id_ok then LpLoaded d else LpCrash
      | _, _ => LpCrash
      end
    else LpSkipped
  else if str_is a_BLE conn then
    if otruthy idv then
      match plook k_addr d with
      | Some _ => if id_ok then LpLoaded d else LpCrash
      | None => LpCrash      (* no discovered device yet: self.name -> pairing_data["AccessoryAddress"] *)
      end
    else LpSkipped
  else LpSkipped.                                    (* TransportNotSupportedError, logged and skipped *)

Definition pfile := list (bytes * pdata).
(* Controller.load_data after parsing: aliases in file order; None = an exception escaped *)
Fixpoint load_pairings (f : pfile) : option (list (bytes * pdata)) :=
  match f with
  | [] => Some []
  | (alias, d) :: r =>
      match load_pairing d with
      | LpCrash => None
      | LpSkipped => load_pairings r
      | LpLoaded d' => match load_pairings r with Some l => Some ((alias, d') :: l) | None => None end
      end
  end.
(* Controller.save_data before printing *)
Definition save_pairings (l : list (bytes * pdata)) : pfile := l.

(* ---------------------------------------------------------------- the cache map (storage_data)
   CharacteristicCacheMemory: a dict  pairing id -> entry.  async_create_or_update_map stores
   exactly the entry built from its arguments (a None broadcast key / state number is stored as
   None, it does not fall back to an older value); async_delete_map removes the id. *)
Section CacheMap.
  Variable E : Type.
  Definition cmap := list (bytes * E).
  Inductive cop := CUpdate (id : bytes) (e : E) | CDelete (id : bytes).

  Fixpoint map_get (id : bytes) (m : cmap) : option E :=
    match m with
    | [] => None
    | (k, e) :: r => if bytes_eqb k id then Some e else map_get id r
    end.
  (* dict assignment: an existing key keeps its position, a new key is appended *)
  Fixpoint map_update (id : bytes) (e : E) (m : cmap) : cmap :=
    match m with
    | [] => [(id, e)]
    | (k, e') :: r => if bytes_eqb k id then (k, e) :: r else (k, e') :: map_update id e r
    end.
  Definition map_delete (id : bytes) (m : cmap) : cmap :=
    filter (fun ke => negb (bytes_eqb (fst ke) id)) m.
  Definition map_step (m : cmap) (o : cop) : cmap :=
    match o with CUpdate id e => map_update id e m | CDelete id => map_delete id m end.
  Definition map_run (ops : list cop) (m : cmap) : cmap := fold_left map_step ops m.

  (* what the last operation on id wrote *)
  Fixpoint last_write (id : bytes) (ops : list cop) (cur : option E) : option E :=
    match ops with
    | [] => cur
    | CUpdate i e :: r => last_write id r (if bytes_eqb i id then Some e else cur)
    | CDelete i :: r => last_write id r (if bytes_eqb i id then None else cur)
    end.
End CacheMap.
Arguments CUpdate {E} id e.
Arguments CDelete {E} id.
