(* Histories of pair-verify sessions on ONE live connection / pairing object:
   the transport glue around get_session_keys as a state machine.

     BLE   controller/ble/pairing.py   _async_pair_verify, _async_reset_connection_state
     IP    controller/ip/connection.py SecureHomeKitConnection._connect_once, _drop_transport
     CoAP  controller/coap/connection.py do_pair_verify, EncryptionContext.post_bytes (end of
           session: coap_ctx := None, the context stays attached), reconnect_soon

   State = which cipher keys are installed, whether the session is live, and (BLE) the
   resumable session (session id + derive closure).  Definitions only. *)
From Coq Require Import List NArith Arith Bool.
From AHK Require Import Lib.Res Lib.ByteStr Model.Tlv Model.Sym Model.Verify.
Import ListNotations.

Record gst := {
  gs_keys : option keys;            (* installed ciphers: c2a / a2c (/ event) *)
  gs_live : bool;                   (* is_connected / is_secure *)
  gs_resume : option resume_st      (* BlePairing._session_id / _derive *)
}.

Definition g_init : gst := {| gs_keys := None; gs_live := false; gs_resume := None |}.

Inductive gev :=
| EVerify (eph : N) (m2 m4 : list sitem)   (* one pair-verify attempt: fresh ephemeral, the peer's replies *)
| EDrop                                    (* the session ends: BLE disconnect, TCP loss, CoAP request failure *)
| EReset.                                  (* CoAP reconnect_soon (elsewhere: as EDrop) *)

Definition g_dead : gst := {| gs_keys := None; gs_live := false; gs_resume := None |}.

(* what a FAILED attempt leaves behind *)
Definition g_verify_failed (tr : transport) (st : gst) : gst :=
  match tr with
  | TBLE => st                                     (* nothing is assigned before the generator returns *)
  | TIP => g_dead                                  (* is_secure := False first; insecure protocol; transport dropped *)
  | TCOAP => if gs_live st then g_dead else st     (* a live context is shut down first; a stale one stays attached *)
  end.

Definition g_verify (tr : transport) (pd : pairing) (st : gst) (eph : N) (m2 m4 : list sitem) : gst :=
  let rs := match tr with TBLE => gs_resume st | _ => None end in
  match pv_run tr pd eph rs m2 m4 with
  | PDone sid k =>
      {| gs_keys := Some (glue tr k); gs_live := true;
         gs_resume := match tr with TBLE => Some {| rs_sid := sid; rs_secret := k |} | _ => None end |}
  | _ => g_verify_failed tr st
  end.

Definition g_drop (tr : transport) (st : gst) : gst :=
  match tr with
  | TCOAP => {| gs_keys := gs_keys st; gs_live := false; gs_resume := None |}   (* enc_ctx stays, coap_ctx := None *)
  | _ => {| gs_keys := None; gs_live := false; gs_resume := gs_resume st |}     (* keys reset; resume state survives *)
  end.

Definition g_reset (tr : transport) (st : gst) : gst :=
  match tr with
  | TCOAP => g_dead
  | _ => g_drop tr st
  end.

Definition g_step (tr : transport) (pd : pairing) (st : gst) (ev : gev) : gst :=
  match ev with
  | EVerify eph m2 m4 => g_verify tr pd st eph m2 m4
  | EDrop => g_drop tr st
  | EReset => g_reset tr st
  end.

Definition g_run (tr : transport) (pd : pairing) (h : list gev) : gst := fold_left (g_step tr pd) h g_init.

(* every state along a history (driver / correspondence) *)
Fixpoint g_trace (tr : transport) (pd : pairing) (st : gst) (h : list gev) : list gst :=
  match h with
  | [] => []
  | ev :: r => let st' := g_step tr pd st ev in st' :: g_trace tr pd st' r
  end.

(* ---- specification side ---- *)
(* a session secret is ROOTED when it comes from an exchange in which the holder of the STORED
   long-term key signed this exchange's keys, or from a resume whose tag was made from a rooted secret *)
Inductive rooted (tr : transport) (pd : pairing) : msg -> Prop :=
| root_full : forall eph m2 m4 sid k,
    pv_full_auth tr pd eph m2 m4 sid k -> rooted tr pd k
| root_resume : forall eph r m2 sid k,
    rooted tr pd (rs_secret r) -> pv_resume_auth tr eph (Some r) m2 sid k -> rooted tr pd k.

Definition g_inv (tr : transport) (pd : pairing) (st : gst) : Prop :=
  (forall ks, gs_keys st = Some ks -> exists k, ks = glue tr k /\ rooted tr pd k) /\
  (forall r, gs_resume st = Some r -> tr = TBLE /\ rooted tr pd (rs_secret r)) /\
  (gs_live st = true -> gs_keys st <> None).
