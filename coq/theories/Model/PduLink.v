(* C17 - the GATT link between _write_pdu and the characteristic (definitions only).

   `await client.write_gatt_char(handle, write, response)` is a suspension point: a backend
   (BlueZ over D-Bus, an ESPHome proxy, ...) hands the bytes to the radio some time after the
   call and resumes the caller afterwards.  A write is modelled as (lat, w): the payload w
   reaches the characteristic lat ticks after the call was started; the link itself does not
   order calls that are in flight together.

   issue_seq   the loop of _write_pdu: `for write in writes: await write_gatt_char(...)` -
               call j+1 is started when call j has returned (its payload has arrived)
   issue_par   all calls started at once (asyncio.gather over the writes) - NOT what the
               code does; kept to show that the per-fragment await is what the ordering
               theorem rests on (Props/C17.v ble_concurrent_fragments_overtake)
   arrival     what the accessory's characteristic sees: payloads by arrival time, calls
               arriving in the same tick in the order they were started (stable) *)
From Coq Require Import List NArith Arith Bool.
From AHK Require Import Lib.Res Lib.ByteStr Model.Pdu.
Import ListNotations.

Definition timed := (nat * bytes)%type.        (* arrival tick, payload *)

Fixpoint issue_seq (t : nat) (ws : list (nat * bytes)) : list timed :=
  match ws with
  | [] => []
  | (lat, w) :: r => (t + lat, w) :: issue_seq (t + lat) r
  end.

Definition issue_par (t : nat) (ws : list (nat * bytes)) : list timed :=
  map (fun lw => (t + fst lw, snd lw)) ws.

(* x was started before every element of l: it goes in front of anything arriving in the same tick *)
Fixpoint insert_timed (x : timed) (l : list timed) : list timed :=
  match l with
  | [] => [x]
  | y :: r => if fst x <=? fst y then x :: y :: r else y :: insert_timed x r
  end.

Fixpoint sort_timed (l : list timed) : list timed :=
  match l with
  | [] => []
  | x :: r => insert_timed x (sort_timed r)
  end.

Definition arrival (l : list timed) : list bytes := map snd (sort_timed l).

(* the request as the accessory receives it over a link with latencies lats (one per GATT write) *)
Definition ble_write_arrival (seal : N -> bytes -> bytes) (ctr : N) (fs : nat) (opcode tid iid : N) (data : bytes)
           (t : nat) (lats : list nat) : res perr (list bytes) :=
  rmap (fun wc => arrival (issue_seq t (combine lats (fst wc)))) (ble_write seal ctr fs opcode tid iid data).

(* ------------------------------------------------------------------ whole sessions over the link
   The latency of a GATT call is an arbitrary total function of (its index in the connection's
   history of calls, its payload): no length side-conditions.  link_seq is the for-loop of
   _write_pdu with the k-th call of the connection first. *)
Definition latency := nat -> bytes -> nat.

Fixpoint issue_seq_f (lat : latency) (t k : nat) (ws : list bytes) : list timed :=
  match ws with
  | [] => []
  | w :: r => (t + lat k w, w) :: issue_seq_f lat (t + lat k w) (S k) r
  end.

Definition link_seq (lat : latency) (t k : nat) (ws : list bytes) : list bytes :=
  arrival (issue_seq_f lat t k ws).

Definition issue_par_f (lat : latency) (t k : nat) (ws : list bytes) : list timed :=
  map (fun iw => (t + lat (k + fst iw) (snd iw), snd iw)) (combine (seq 0 (length ws)) ws).

(* ble_loop (Model/Pdu.v) with every request's GATT writes carried by the link, and the
   responses' reads too (the accessory's fragments are read one call at a time): k counts the
   GATT calls made on the connection so far *)
Fixpoint ble_loop_link (lat : latency)
         (sealW : N -> bytes -> bytes) (openR : N -> bytes -> option bytes)
         (sealR : N -> bytes -> bytes) (openW : N -> bytes -> option bytes) (resp : responder)
         (k : nat) (cst ast : N * N) (reqs : list breq) : res perr (list (N * bytes) * (N * N) * (N * N)) :=
  match reqs with
  | [] => Ok ([], cst, ast)
  | (fs, op, tid, iid, data) :: r =>
      rbind (ble_write sealW (fst cst) fs op tid iid data) (fun we =>
        match acc_handle sealR openW resp ast (link_seq lat 0 k (fst we)) with
        | None => Err Starved
        | Some (fr, ast') =>
            rbind (read_pdu openR (snd cst) tid (link_seq lat 0 (k + length (fst we)) fr)) (fun r4 =>
              let '(st, body, _unread, d') := r4 in
              rbind (ble_loop_link lat sealW openR sealR openW resp (k + length (fst we) + length fr) (snd we, d') ast' r) (fun oca =>
                let '(outs, c', a') := oca in Ok ((st, body) :: outs, c', a')))
        end)
  end.
