(* Model of aiohomekit/protocol/tlv.py : TLV.encode_list, TLV.decode_bytearray
   (with the 'expected' filter), and of the BLE pairing-fragment reassembly loop
   in aiohomekit/controller/ble/client.py::_pairing_char_write.
   Definitions only; proofs are in Proofs/Tlv.v. *)
From Coq Require Import List NArith Arith Bool.
From AHK Require Import Lib.Res Lib.ByteStr.
Import ListNotations.

Definition item := (N * bytes)%type.

Inductive tlv_err := ParseError | ValueError.

Section TLV.
  (* maximal fragment size; 255 in the implementation.  A section variable so
     that proofs never unfold the numeral. *)
  Variable F : nat.

  (* ---- encoder: TLV.encode_list ------------------------------------- *)

  (* one value -> fragments.  fuel: S (length v) suffices.
     Python: while len(value) > 0: emit min(255,len) bytes.  An empty value
     emits "key 00" (repaired behaviour; the separator branch always did). *)
  Fixpoint frags (fuel : nat) (k : N) (v : bytes) : bytes :=
    match fuel with
    | O => []
    | S f =>
        if length v <=? F then k :: N.of_nat (length v) :: v
        else k :: N.of_nat F :: firstn F v ++ frags f k (skipn F v)
    end.

  Definition valid_key (k : N) : bool := N.ltb k 256.

  Fixpoint encode_list (d : list item) : res tlv_err bytes :=
    match d with
    | [] => Ok []
    | (k, v) :: r =>
        if negb (valid_key k) then Err ValueError
        else if N.eqb k 255 && negb (nil_b v) then Err ValueError
        else rbind (encode_list r) (fun t => Ok (frags (S (length v)) k v ++ t))
    end.

  (* ---- decoder: TLV.decode_bytearray -------------------------------- *)

  (* result list kept reversed; merge with the last item when the type repeats *)
  Definition push (acc : list item) (k : N) (v : bytes) : list item :=
    match acc with
    | (k', v') :: r => if N.eqb k' k then (k', v' ++ v) :: r else (k, v) :: acc
    | [] => [(k, v)]
    end.

  Fixpoint dec (fuel : nat) (expected : list N) (tail : bytes) (acc : list item)
    : res tlv_err (list item) :=
    match fuel with
    | O => OutOfFuel
    | S f =>
        match tail with
        | [] => Ok (rev acc)
        | k :: t1 =>
            if negb (nil_b expected) && negb (mem_N k expected) then Ok (rev acc)
            else
              match t1 with
              | [] => Err ParseError          (* lone type byte: repaired; was IndexError *)
              | l :: t2 =>
                  if N.leb l (N.of_nat (length t2))
                  then dec f expected (skipn (N.to_nat l) t2)
                           (push acc k (firstn (N.to_nat l) t2))
                  else Err ParseError
              end
        end
    end.

  Definition decode_exp (expected : list N) (bs : bytes) : res tlv_err (list item) :=
    dec (S (length bs)) expected bs [].
  Definition decode (bs : bytes) := decode_exp [] bs.

  (* ---- specification side ------------------------------------------- *)

  (* textbook TLV8: an empty value is one empty fragment, otherwise maximal chunks *)
  Definition spec_item (k : N) (v : bytes) : bytes :=
    match chunks F v with
    | [] => [k; 0%N]
    | cs => concat (map (fun c => k :: N.of_nat (length c) :: c) cs)
    end.
  Definition spec_encode (d : list item) : bytes :=
    concat (map (fun kv => spec_item (fst kv) (snd kv)) d).

  (* strict, non-merging fragment parser: every fragment carries exactly the
     declared number of bytes *)
  Fixpoint parse_frags (fuel : nat) (bs : bytes) : option (list item) :=
    match fuel with
    | O => None
    | S f =>
        match bs with
        | [] => Some []
        | [_] => None
        | k :: l :: t =>
            if N.leb l (N.of_nat (length t))
            then option_map (cons (k, firstn (N.to_nat l) t)) (parse_frags f (skipn (N.to_nat l) t))
            else None
        end
    end.

  (* join adjacent equal-typed fragments, left to right *)
  Definition merge (fr : list item) : list item :=
    rev (fold_left (fun acc kv => push acc (fst kv) (snd kv)) fr []).

  (* well-formed item lists: the domain of the round trip *)
  Fixpoint no_adj (d : list item) : bool :=
    match d with
    | (k1, _) :: (((k2, _) :: _) as r) => negb (N.eqb k1 k2) && no_adj r
    | _ => true
    end.
  Definition wf_item (kv : item) : bool :=
    valid_key (fst kv) && (negb (N.eqb (fst kv) 255) || nil_b (snd kv)).
  Definition wf (d : list item) : bool := forallb wf_item d && no_adj d.

  (* python dict(list): later duplicates win; we only need lookup *)
  Fixpoint lookup (k : N) (d : list item) : option bytes :=
    match d with
    | [] => None
    | (k', v) :: r => match lookup k r with Some x => Some x | None => if N.eqb k k' then Some v else None end
    end.

  (* ---- BLE pairing fragment reassembly (_pairing_char_write) ---------- *)
  (* [replies]: the decoded-later raw TLV payload of each successive GATT reply.
     Output: acknowledgements written (each must be "0c 00") and the final dict,
     here as the decoded item list of the reassembled buffer. *)
  Inductive reasm :=
  | RDone (acks : nat) (items : list item)     (* returned dict(items) *)
  | RFail (acks : nat) (e : tlv_err)
  | RCrash
  | RTooMany.                                   (* ValueError after MAX_REASSEMBLY *)

  (* items of a payload that are not fragment items: they are part of the reply too (repaired loop,
     /repo acb2c25) and are kept in arrival order; the reassembled items come after them, so in
     dict(siblings + reassembled) a reassembled item wins over a sibling of the same type *)
  Definition nonfrag (items : list item) : list item :=
    filter (fun kv => negb (N.eqb (fst kv) 12 || N.eqb (fst kv) 13)) items.

  Definition finish_buf (acks : nat) (sib : list item) (buffer : bytes) : reasm :=
    match decode buffer with
    | Ok r => RDone acks (sib ++ r)
    | Err e => RFail acks e
    | _ => RCrash
    end.

  Fixpoint reassemble (max : nat) (replies : list bytes) (buffer : bytes) (sib : list item) (acks : nat) : reasm :=
    match max with
    | O => RTooMany
    | S m =>
        match replies with
        | [] => RCrash                          (* script exhausted: not a library path *)
        | data :: rest =>
            match decode data with
            | Ok items =>
                let sib' := sib ++ nonfrag items in
                match lookup 13 items with
                | Some last => finish_buf acks sib' (buffer ++ last)
                | None =>
                    match lookup 12 items with
                    | Some part => reassemble m rest (buffer ++ part) sib' (S acks)
                    | None => finish_buf acks sib' buffer     (* an unterminated buffer is decoded too *)
                    end
                end
            | Err e => RFail acks e
            | _ => RCrash
            end
        end
    end.
End TLV.

Definition tlv_encode := encode_list 255.
Definition tlv_decode := decode.
Definition tlv_decode_exp := decode_exp.
Definition tlv_spec_encode := spec_encode 255.
Definition tlv_reassemble := fun replies => reassemble 50 replies [] [] 0.
