(* SHA-512 (FIPS 180-4) on byte strings, words are [N] reduced mod 2^64.
   Definitions only.  Used as the executable hash of the C02 SRP model
   (aiohomekit/crypto/srp.py: [self.h = hashlib.sha512]).  Checked against the
   NIST vectors in Proofs/Sha512.v and against hashlib by harness/c02.py. *)
From Coq Require Import List NArith Arith.
From AHK Require Import Lib.ByteStr.
Import ListNotations.
Local Open Scope N_scope.

Definition mask64 : N := 0xFFFFFFFFFFFFFFFF.
Definition w64 (x : N) : N := N.land x mask64.
Definition rotr (n x : N) : N := N.lor (N.shiftr x n) (w64 (N.shiftl x (64 - n))).

Definition Ch (x y z : N) : N := N.lxor (N.land x y) (N.ldiff z x).
Definition Maj (x y z : N) : N := N.lxor (N.lxor (N.land x y) (N.land x z)) (N.land y z).
Definition bsig0 (x : N) : N := N.lxor (N.lxor (rotr 28 x) (rotr 34 x)) (rotr 39 x).
Definition bsig1 (x : N) : N := N.lxor (N.lxor (rotr 14 x) (rotr 18 x)) (rotr 41 x).
Definition ssig0 (x : N) : N := N.lxor (N.lxor (rotr 1 x) (rotr 8 x)) (N.shiftr x 7).
Definition ssig1 (x : N) : N := N.lxor (N.lxor (rotr 19 x) (rotr 61 x)) (N.shiftr x 6).

Definition K512 : list N :=
  [0x428a2f98d728ae22; 0x7137449123ef65cd; 0xb5c0fbcfec4d3b2f; 0xe9b5dba58189dbbc;
   0x3956c25bf348b538; 0x59f111f1b605d019; 0x923f82a4af194f9b; 0xab1c5ed5da6d8118;
   0xd807aa98a3030242; 0x12835b0145706fbe; 0x243185be4ee4b28c; 0x550c7dc3d5ffb4e2;
   0x72be5d74f27b896f; 0x80deb1fe3b1696b1; 0x9bdc06a725c71235; 0xc19bf174cf692694;
   0xe49b69c19ef14ad2; 0xefbe4786384f25e3; 0x0fc19dc68b8cd5b5; 0x240ca1cc77ac9c65;
   0x2de92c6f592b0275; 0x4a7484aa6ea6e483; 0x5cb0a9dcbd41fbd4; 0x76f988da831153b5;
   0x983e5152ee66dfab; 0xa831c66d2db43210; 0xb00327c898fb213f; 0xbf597fc7beef0ee4;
   0xc6e00bf33da88fc2; 0xd5a79147930aa725; 0x06ca6351e003826f; 0x142929670a0e6e70;
   0x27b70a8546d22ffc; 0x2e1b21385c26c926; 0x4d2c6dfc5ac42aed; 0x53380d139d95b3df;
   0x650a73548baf63de; 0x766a0abb3c77b2a8; 0x81c2c92e47edaee6; 0x92722c851482353b;
   0xa2bfe8a14cf10364; 0xa81a664bbc423001; 0xc24b8b70d0f89791; 0xc76c51a30654be30;
   0xd192e819d6ef5218; 0xd69906245565a910; 0xf40e35855771202a; 0x106aa07032bbd1b8;
   0x19a4c116b8d2d0c8; 0x1e376c085141ab53; 0x2748774cdf8eeb99; 0x34b0bcb5e19b48a8;
   0x391c0cb3c5c95a63; 0x4ed8aa4ae3418acb; 0x5b9cca4f7763e373; 0x682e6ff3d6b2b8a3;
   0x748f82ee5defb2fc; 0x78a5636f43172f60; 0x84c87814a1f0ab72; 0x8cc702081a6439ec;
   0x90befffa23631e28; 0xa4506cebde82bde9; 0xbef9a3f7b2c67915; 0xc67178f2e372532b;
   0xca273eceea26619c; 0xd186b8c721c0c207; 0xeada7dd6cde0eb1e; 0xf57d4f7fee6ed178;
   0x06f067aa72176fba; 0x0a637dc5a2c898a6; 0x113f9804bef90dae; 0x1b710b35131c471b;
   0x28db77f523047d84; 0x32caab7b40c72493; 0x3c9ebe0a15c9bebc; 0x431d67c49c100d4c;
   0x4cc5d4becb3e42b6; 0x597f299cfc657e2a; 0x5fcb6fab3ad6faec; 0x6c44198c4a475817].

(* the eight working variables / the hash value *)
Definition st8 := (N * N * N * N * N * N * N * N)%type.

Definition H512_init : st8 :=
  (0x6a09e667f3bcc908, 0xbb67ae8584caa73b, 0x3c6ef372fe94f82b, 0xa54ff53a5f1d36f1,
   0x510e527fade682d1, 0x9b05688c2b3e6c1f, 0x1f83d9abfb41bd6b, 0x5be0cd19137e2179).

(* sliding window over the message schedule: the list holds W[t] .. W[t+15];
   one step drops W[t] and appends W[t+16] *)
Definition sched_step (w : list N) : list N :=
  match w with
  | [w0; w1; w2; w3; w4; w5; w6; w7; w8; w9; w10; w11; w12; w13; w14; w15] =>
      [w1; w2; w3; w4; w5; w6; w7; w8; w9; w10; w11; w12; w13; w14; w15;
       w64 (ssig1 w14 + w9 + ssig0 w1 + w0)]
  | _ => w
  end.

Definition round (sw : st8 * list N) (kt : N) : st8 * list N :=
  let '((a, b, c, d, e, f, g, h), w) := sw in
  let wt := hd 0 w in
  let t1 := h + bsig1 e + Ch e f g + kt + wt in
  let t2 := bsig0 a + Maj a b c in
  ((w64 (t1 + t2), a, b, c, w64 (d + t1), e, f, g), sched_step w).

Definition add8 (x y : st8) : st8 :=
  let '(a, b, c, d, e, f, g, h) := x in
  let '(a', b', c', d', e', f', g', h') := y in
  (w64 (a + a'), w64 (b + b'), w64 (c + c'), w64 (d + d'),
   w64 (e + e'), w64 (f + f'), w64 (g + g'), w64 (h + h')).

(* [n] big-endian 64-bit words from the front of [l] *)
Fixpoint be_words (n : nat) (l : bytes) : list N :=
  match n with
  | O => []
  | S n' => be_dec (firstn 8 l) :: be_words n' (skipn 8 l)
  end.

Definition compress (st : st8) (block : bytes) : st8 :=
  add8 st (fst (fold_left round K512 (st, be_words 16 block))).

Fixpoint process (nblocks : nat) (st : st8) (l : bytes) : st8 :=
  match nblocks with
  | O => st
  | S n' => process n' (compress st (firstn 128 l)) (skipn 128 l)
  end.

(* FIPS 180-4 5.1.2: 0x80, then zeros up to 112 mod 128, then the bit length on 16 bytes *)
Definition sha512_pad (msg : bytes) : bytes :=
  let len := N.of_nat (length msg) in
  let k := (128 - (len + 17) mod 128) mod 128 in
  msg ++ [128] ++ repeat 0 (N.to_nat k) ++ be_enc 16 (8 * len).

Definition st8_bytes (s : st8) : bytes :=
  let '(a, b, c, d, e, f, g, h) := s in
  be_enc 8 a ++ be_enc 8 b ++ be_enc 8 c ++ be_enc 8 d ++
  be_enc 8 e ++ be_enc 8 f ++ be_enc 8 g ++ be_enc 8 h.

Definition sha512 (msg : bytes) : bytes :=
  let p := sha512_pad msg in
  st8_bytes (process (Nat.div (length p) 128) H512_init p).

(* helpers for test vectors and the correspondence: a byte string given as
   (length, big-endian value) *)
Definition bytes_of (len n : N) : bytes := be_enc (N.to_nat len) n.
(* a byte string as one number that keeps the length: 0x01 ‖ bytes *)
Definition tagged (l : bytes) : N := be_dec (1 :: l).
